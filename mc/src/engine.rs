#![allow(dead_code)]
//! Shared machinery: reports/evidence, known findings, violations and replay files,
//! parallel exhaustive enumeration, panic capture, worker subprocesses with watchdog.

use serde_json::{json, Map, Value};
use std::collections::hash_map::DefaultHasher;
use std::collections::{BTreeMap, HashSet};
use std::hash::{Hash, Hasher};
use std::io::{BufRead, BufReader, Write};
use std::panic::{catch_unwind, AssertUnwindSafe};
use std::path::PathBuf;
use std::sync::atomic::{AtomicU64, AtomicUsize, Ordering};
use std::sync::Mutex;
use std::time::{Duration, Instant};

pub const VERIF_ROOT: &str = concat!(env!("CARGO_MANIFEST_DIR"), "/..");

#[derive(Clone, Copy, PartialEq, Eq, Debug)]
pub enum Tier {
    Quick,
    Thorough,
}

impl Tier {
    pub fn name(&self) -> &'static str {
        match self {
            Tier::Quick => "quick",
            Tier::Thorough => "thorough",
        }
    }
    pub fn pick<T>(&self, quick: T, thorough: T) -> T {
        match self {
            Tier::Quick => quick,
            Tier::Thorough => thorough,
        }
    }
}

pub fn hash_of<T: Hash>(t: &T) -> u64 {
    let mut h = DefaultHasher::new();
    t.hash(&mut h);
    h.finish()
}

/// Canonical bit pattern of an f64: all NaNs are one pattern
pub fn bits(x: f64) -> u64 {
    if x.is_nan() {
        0x7ff8_0000_0000_0000
    } else {
        x.to_bits()
    }
}

pub fn bits4(c: [f64; 4]) -> [u64; 4] {
    [bits(c[0]), bits(c[1]), bits(c[2]), bits(c[3])]
}

pub fn fmt4(c: [f64; 4]) -> String {
    format!("[{:?}, {:?}, {:?}, {:?}]", c[0], c[1], c[2], c[3])
}

pub fn threads() -> usize {
    std::env::var("VERIF_THREADS")
        .ok()
        .and_then(|s| s.parse().ok())
        .unwrap_or_else(|| {
            std::thread::available_parallelism()
                .map(|n| n.get())
                .unwrap_or(8)
                .min(16)
        })
}

// ----- Panic capture -------------------------------------------------------------------

thread_local! {
    static LAST_PANIC: std::cell::RefCell<Option<String>> = const { std::cell::RefCell::new(None) };
}

pub fn install_panic_hook() {
    std::panic::set_hook(Box::new(|info| {
        let loc = info
            .location()
            .map(|l| {
                // strip the absolute prefix so keys do not depend on where /repo lives
                let f = l.file();
                let f = f.rsplit_once("/src/").map(|x| x.1).unwrap_or(f);
                format!("{}:{}", f, l.line())
            })
            .unwrap_or_else(|| "?".to_string());
        let msg = if let Some(s) = info.payload().downcast_ref::<&str>() {
            s.to_string()
        } else if let Some(s) = info.payload().downcast_ref::<String>() {
            s.clone()
        } else {
            "?".to_string()
        };
        LAST_PANIC.with(|p| *p.borrow_mut() = Some(format!("{loc}: {msg}")));
    }));
}

/// Run `f`, converting a panic into Err("file:line: message")
pub fn catch<T>(f: impl FnOnce() -> T) -> Result<T, String> {
    match catch_unwind(AssertUnwindSafe(f)) {
        Ok(v) => Ok(v),
        Err(_) => Err(LAST_PANIC
            .with(|p| p.borrow_mut().take())
            .unwrap_or_else(|| "panic (no info)".to_string())),
    }
}

/// Reduce a panic text to a message class: strip numbers and quoted material so that
/// one root cause gives one key
pub fn panic_class(p: &str) -> String {
    let (loc, msg) = p.split_once(": ").unwrap_or((p, ""));
    let file = loc.split(':').next().unwrap_or(loc);
    let mut out = String::new();
    let mut last_hash = false;
    for ch in msg.chars().take(80) {
        if ch.is_ascii_digit() {
            if !last_hash {
                out.push('#');
            }
            last_hash = true;
        } else {
            out.push(ch);
            last_hash = false;
        }
    }
    let out = out.split(['"', '\'', '`']).next().unwrap_or("").trim().to_string();
    format!("{file}: {out}")
}

// ----- Parallel exhaustive enumeration -------------------------------------------------

/// Visit every index 0..n exactly once, on `threads()` threads, in blocks
pub fn par_range(n: usize, f: impl Fn(usize) + Sync) {
    let next = AtomicUsize::new(0);
    let nthreads = threads().min(n.max(1));
    let block = (n / (nthreads * 64)).clamp(1, 4096);
    std::thread::scope(|s| {
        for _ in 0..nthreads {
            s.spawn(|| loop {
                let start = next.fetch_add(block, Ordering::Relaxed);
                if start >= n {
                    break;
                }
                for i in start..(start + block).min(n) {
                    f(i);
                }
            });
        }
    });
}

/// Mixed radix decode of index `i` over the axis sizes `radix` (first axis fastest)
pub fn decode(mut i: usize, radix: &[usize]) -> Vec<usize> {
    let mut out = Vec::with_capacity(radix.len());
    for r in radix {
        out.push(i % r);
        i /= r;
    }
    out
}

pub fn product(radix: &[usize]) -> usize {
    radix.iter().product()
}

// ----- Report / evidence ---------------------------------------------------------------

#[derive(Clone, Debug)]
pub struct Violation {
    pub key: String,
    pub detail: Value,
    pub count: u64,
}

pub struct Report {
    pub id: &'static str,
    pub tier: Tier,
    pub level: &'static str,
    start: Instant,
    pub evaluations: AtomicU64,
    pub states: AtomicU64,
    pub transitions: AtomicU64,
    pub traces: AtomicU64,
    outcomes: Mutex<HashSet<u64>>,
    nontrivial: Mutex<HashSet<u64>>,
    samples: Mutex<Vec<Value>>,
    violations: Mutex<BTreeMap<String, Violation>>,
    extra: Mutex<Map<String, Value>>,
    assumptions: Mutex<Vec<String>>,
    rule: Mutex<String>,
    exhaustive: Mutex<bool>,
    machinery_errors: Mutex<Vec<String>>,
}

impl Report {
    pub fn new(id: &'static str, tier: Tier, level: &'static str) -> Report {
        Report {
            id,
            tier,
            level,
            start: Instant::now(),
            evaluations: AtomicU64::new(0),
            states: AtomicU64::new(0),
            transitions: AtomicU64::new(0),
            traces: AtomicU64::new(0),
            outcomes: Mutex::new(HashSet::new()),
            nontrivial: Mutex::new(HashSet::new()),
            samples: Mutex::new(Vec::new()),
            violations: Mutex::new(BTreeMap::new()),
            extra: Mutex::new(Map::new()),
            assumptions: Mutex::new(Vec::new()),
            rule: Mutex::new(String::new()),
            exhaustive: Mutex::new(true),
            machinery_errors: Mutex::new(Vec::new()),
        }
    }

    pub fn elapsed(&self) -> f64 {
        self.start.elapsed().as_secs_f64()
    }

    pub fn eval(&self, n: u64) {
        self.evaluations.fetch_add(n, Ordering::Relaxed);
    }
    pub fn state(&self, n: u64) {
        self.states.fetch_add(n, Ordering::Relaxed);
    }
    pub fn transition(&self, n: u64) {
        self.transitions.fetch_add(n, Ordering::Relaxed);
    }
    pub fn trace(&self, n: u64) {
        self.traces.fetch_add(n, Ordering::Relaxed);
    }
    /// Record the hash of an observed outcome (for the "distinct outcomes" vacuity indicator)
    pub fn outcome(&self, h: u64) {
        let mut o = self.outcomes.lock().unwrap();
        if o.len() < 4_000_000 {
            o.insert(h);
        }
    }
    /// Record the hash of a case that is non-trivial by the property's rule
    pub fn nontrivial(&self, h: u64) {
        let mut o = self.nontrivial.lock().unwrap();
        if o.len() < 4_000_000 {
            o.insert(h);
        }
    }
    pub fn outcomes_bulk(&self, hs: &HashSet<u64>) {
        let mut o = self.outcomes.lock().unwrap();
        for h in hs {
            if o.len() >= 4_000_000 {
                break;
            }
            o.insert(*h);
        }
    }
    pub fn nontrivial_bulk(&self, hs: &HashSet<u64>) {
        let mut o = self.nontrivial.lock().unwrap();
        for h in hs {
            if o.len() >= 4_000_000 {
                break;
            }
            o.insert(*h);
        }
    }
    pub fn sample(&self, v: Value) {
        let mut s = self.samples.lock().unwrap();
        if s.len() < 24 {
            s.push(v);
        }
    }
    pub fn set(&self, k: &str, v: Value) {
        self.extra.lock().unwrap().insert(k.to_string(), v);
    }
    pub fn add_to(&self, k: &str, v: Value) {
        let mut e = self.extra.lock().unwrap();
        let entry = e.entry(k.to_string()).or_insert_with(|| json!([]));
        if let Some(a) = entry.as_array_mut() {
            if a.len() < 200 && !a.contains(&v) {
                a.push(v);
            }
        }
    }
    pub fn assume(&self, s: &str) {
        self.assumptions.lock().unwrap().push(s.to_string());
    }
    pub fn rule(&self, s: &str) {
        *self.rule.lock().unwrap() = s.to_string();
    }
    pub fn not_exhaustive(&self, why: &str) {
        *self.exhaustive.lock().unwrap() = false;
        self.add_to("caps_hit", json!(why));
    }
    pub fn machinery_error(&self, s: String) {
        self.machinery_errors.lock().unwrap().push(s);
    }

    /// Record a violation. `key` identifies the minimal failing core (clause + canonical
    /// minimal case); only the first detail per key is retained.
    pub fn violation(&self, key: &str, detail: Value) {
        let mut v = self.violations.lock().unwrap();
        let key = key.replace(" :: ", " : ").replace('\n', "\\n");
        let e = v.entry(key.clone()).or_insert(Violation {
            key,
            detail,
            count: 0,
        });
        e.count += 1;
    }

    pub fn violation_count(&self) -> usize {
        self.violations.lock().unwrap().len()
    }

    pub fn has_violation(&self, key: &str) -> bool {
        self.violations.lock().unwrap().contains_key(key)
    }

    /// Write evidence, print KNOWN-FINDING / VIOLATION lines, return the exit code
    pub fn finish(self) -> i32 {
        let known = load_known(self.id);
        let violations = self.violations.lock().unwrap().clone();
        let mut new_violations = 0;
        let mut known_hit = Vec::new();
        let mut viol_out = Vec::new();
        for (key, v) in &violations {
            if let Some(desc) = known.get(key) {
                println!("KNOWN-FINDING: property={} key={} :: {}", self.id, key, desc);
                known_hit.push(json!({"key": key, "cases": v.count}));
            } else {
                new_violations += 1;
                let path = write_replay(self.id, key, &v.detail);
                println!("VIOLATION property={} replay={}", self.id, path);
                println!("  key: {}", key);
                println!("  cases: {}  first: {}", v.count, v.detail);
                viol_out.push(json!({"key": key, "cases": v.count, "replay": path}));
            }
        }
        let unreproduced: Vec<&String> =
            known.keys().filter(|k| !violations.contains_key(*k)).collect();
        for k in &unreproduced {
            println!(
                "note: listed finding not reproduced in this tier: property={} key={}",
                self.id, k
            );
        }

        let mut coverage = self.extra.lock().unwrap().clone();
        let evaluations = self.evaluations.load(Ordering::Relaxed);
        let outcomes = self.outcomes.lock().unwrap().len();
        let nontrivial = self.nontrivial.lock().unwrap().len();
        coverage.insert("evaluations".into(), json!(evaluations));
        coverage.insert("distinct_nontrivial".into(), json!(nontrivial));
        coverage.insert("distinct_outcomes".into(), json!(outcomes));
        coverage.insert("rule".into(), json!(*self.rule.lock().unwrap()));
        coverage.insert("samples".into(), json!(*self.samples.lock().unwrap()));
        let st = self.states.load(Ordering::Relaxed);
        let tr = self.transitions.load(Ordering::Relaxed);
        if st > 0 || self.level == "model_checking" {
            coverage.insert("states".into(), json!(st));
            coverage.insert("transitions".into(), json!(tr));
            coverage.insert(
                "traces_validated_against_impl".into(),
                json!(self.traces.load(Ordering::Relaxed)),
            );
        }
        coverage.insert("exhaustive".into(), json!(*self.exhaustive.lock().unwrap()));
        coverage.insert("known_findings_reproduced".into(), json!(known_hit));
        coverage.insert("new_violations".into(), json!(viol_out));
        let merrs = self.machinery_errors.lock().unwrap().clone();
        if !merrs.is_empty() {
            coverage.insert("machinery_errors".into(), json!(merrs));
        }

        let seed: i64 = std::env::var("VERIF_SEED")
            .ok()
            .and_then(|s| s.parse().ok())
            .unwrap_or(0);
        let ev = json!({
            "property_id": self.id,
            "tier": self.tier.name(),
            "seed": seed,
            "level": self.level,
            "coverage": Value::Object(coverage),
            "assumptions": *self.assumptions.lock().unwrap(),
            "wall_s": self.elapsed(),
            "violations": new_violations,
        });
        let dir = PathBuf::from(VERIF_ROOT).join("evidence");
        let _ = std::fs::create_dir_all(&dir);
        let path = dir.join(format!("{}.json", self.id));
        let text = serde_json::to_string_pretty(&ev).unwrap();
        if let Err(e) = std::fs::write(&path, text) {
            eprintln!("machinery: cannot write evidence {path:?}: {e}");
            return 2;
        }
        println!(
            "{} {}: evaluations={} states={} transitions={} distinct_outcomes={} nontrivial={} known={} new_violations={} wall={:.1}s",
            self.id,
            self.tier.name(),
            evaluations,
            st,
            tr,
            outcomes,
            nontrivial,
            violations.len() - new_violations,
            new_violations,
            self.elapsed()
        );
        if !merrs.is_empty() {
            for e in &merrs {
                eprintln!("machinery error: {e}");
            }
            return 2;
        }
        if evaluations == 0 {
            eprintln!("machinery error: nothing was evaluated");
            return 2;
        }
        if new_violations > 0 {
            1
        } else {
            0
        }
    }
}

/// known_findings.txt: `known: property=<id> key=<key> :: <description>`
fn load_known(id: &str) -> BTreeMap<String, String> {
    let path = PathBuf::from(VERIF_ROOT).join("known_findings.txt");
    let mut out = BTreeMap::new();
    let Ok(text) = std::fs::read_to_string(path) else {
        return out;
    };
    for line in text.lines() {
        let line = line.trim();
        let Some(rest) = line.strip_prefix("known: property=") else {
            continue;
        };
        let Some((pid, rest)) = rest.split_once(' ') else {
            continue;
        };
        if pid != id {
            continue;
        }
        let Some(rest) = rest.strip_prefix("key=") else {
            continue;
        };
        let (key, desc) = rest.split_once(" :: ").unwrap_or((rest, ""));
        out.insert(key.trim().to_string(), desc.trim().to_string());
    }
    out
}

fn write_replay(id: &str, key: &str, detail: &Value) -> String {
    let dir = PathBuf::from(VERIF_ROOT).join("replays").join(id);
    let _ = std::fs::create_dir_all(&dir);
    let name = format!("{:016x}.json", hash_of(&key));
    let path = dir.join(name);
    let v = json!({"property": id, "key": key, "case": detail});
    let _ = std::fs::write(&path, serde_json::to_string_pretty(&v).unwrap());
    let p = path.to_string_lossy().to_string();
    // normalise /verif/mc/../replays -> /verif/replays
    std::fs::canonicalize(&path)
        .map(|p| p.to_string_lossy().to_string())
        .unwrap_or(p)
}

// ----- Worker subprocesses -------------------------------------------------------------

#[derive(Debug, Clone, PartialEq)]
pub enum WorkerOutcome {
    /// The worker answered with this line
    Answer(String),
    /// The worker died (signal / abort / exit) while this case was in flight
    Died(String),
    /// No answer within the watchdog limit (also after a solitary re-run with the long limit)
    Timeout,
    /// Not run: more than 200 cases of this space had already hung (the verdict is settled, the
    /// report says that the space was not walked to its end)
    Skipped,
}

struct Child {
    child: std::process::Child,
    stdin: std::process::ChildStdin,
    rx: std::sync::mpsc::Receiver<String>,
}

fn spawn_child(kind: &str) -> Child {
    let exe = std::env::current_exe().expect("current_exe");
    let mut child = std::process::Command::new(exe)
        .arg("--worker")
        .arg(kind)
        .stdin(std::process::Stdio::piped())
        .stdout(std::process::Stdio::piped())
        .stderr(std::process::Stdio::null())
        .spawn()
        .expect("spawn worker");
    let stdin = child.stdin.take().unwrap();
    let stdout = child.stdout.take().unwrap();
    let (tx, rx) = std::sync::mpsc::channel();
    std::thread::spawn(move || {
        let r = BufReader::new(stdout);
        for line in r.lines() {
            let Ok(line) = line else { break };
            if tx.send(line).is_err() {
                break;
            }
        }
    });
    Child { child, stdin, rx }
}

fn run_one(c: &mut Option<Child>, kind: &str, case: &str, limit: Duration) -> WorkerOutcome {
    if c.is_none() {
        *c = Some(spawn_child(kind));
    }
    let ch = c.as_mut().unwrap();
    let line = case.replace('\\', "\\\\").replace('\n', "\\n").replace('\r', "\\r");
    if writeln!(ch.stdin, "{line}").is_err() || ch.stdin.flush().is_err() {
        let status = ch.child.wait().map(|s| format!("{s}")).unwrap_or_default();
        *c = None;
        return WorkerOutcome::Died(format!("worker gone before case: {status}"));
    }
    match ch.rx.recv_timeout(limit) {
        Ok(ans) => WorkerOutcome::Answer(ans),
        Err(std::sync::mpsc::RecvTimeoutError::Timeout) => {
            let _ = ch.child.kill();
            let _ = ch.child.wait();
            *c = None;
            WorkerOutcome::Timeout
        }
        Err(std::sync::mpsc::RecvTimeoutError::Disconnected) => {
            let status = ch.child.wait().map(|s| format!("{s}")).unwrap_or_default();
            *c = None;
            WorkerOutcome::Died(status)
        }
    }
}

/// Run every case in a worker subprocess (kind selects the subject function in
/// `worker_main`); `nworkers` children in parallel; results in case order.
pub fn run_in_workers(kind: &str, cases: &[String], limit_s: u64) -> Vec<WorkerOutcome> {
    let n = cases.len();
    let results: Vec<Mutex<Option<WorkerOutcome>>> = (0..n).map(|_| Mutex::new(None)).collect();
    let next = AtomicUsize::new(0);
    let nworkers = threads().min(n.max(1));
    let confirmed_timeouts = AtomicUsize::new(0);
    let all_timeouts = AtomicUsize::new(0);
    std::thread::scope(|s| {
        for _ in 0..nworkers {
            s.spawn(|| {
                let mut child: Option<Child> = None;
                loop {
                    let i = next.fetch_add(1, Ordering::Relaxed);
                    if i >= n {
                        break;
                    }
                    // once four hangs are confirmed with the long limit and 32 cases have timed out, the
                    // verdict is settled: the rest of the space is still walked, with a 2 s watchdog, so
                    // that a tree that hangs on thousands of cases ends in minutes rather than hours
                    if all_timeouts.load(Ordering::Relaxed) >= 200 {
                        *results[i].lock().unwrap() = Some(WorkerOutcome::Skipped);
                        continue;
                    }
                    let settled = confirmed_timeouts.load(Ordering::Relaxed) >= 4
                        && all_timeouts.load(Ordering::Relaxed) >= 32;
                    let limit = if settled { limit_s.min(2) } else { limit_s };
                    let mut out = run_one(&mut child, kind, &cases[i], Duration::from_secs(limit));
                    if out == WorkerOutcome::Timeout {
                        all_timeouts.fetch_add(1, Ordering::Relaxed);
                    }
                    if out == WorkerOutcome::Timeout && confirmed_timeouts.load(Ordering::Relaxed) < 4 {
                        // re-run alone with a long limit before it is reported (only for the first few:
                        // once hangs are confirmed, later ones are reported after the short limit)
                        out = run_one(&mut child, kind, &cases[i], Duration::from_secs(60));
                        if out == WorkerOutcome::Timeout {
                            confirmed_timeouts.fetch_add(1, Ordering::Relaxed);
                        }
                    }
                    *results[i].lock().unwrap() = Some(out);
                }
                if let Some(mut c) = child {
                    drop(c.stdin);
                    let _ = c.child.wait();
                }
            });
        }
    });
    results
        .into_iter()
        .map(|m| m.into_inner().unwrap().unwrap())
        .collect()
}

/// Worker side: read cases line by line, answer one line each. The subject runs on a
/// 2 MiB stack thread under an address space limit.
pub fn worker_main(subject: fn(&str) -> String) -> ! {
    unsafe {
        let lim = libc::rlimit {
            rlim_cur: 4 << 30,
            rlim_max: 4 << 30,
        };
        libc::setrlimit(libc::RLIMIT_AS, &lim);
        // a worker never outlives its supervisor (a hung subject would spin for ever otherwise)
        libc::prctl(libc::PR_SET_PDEATHSIG, libc::SIGKILL);
    }
    install_panic_hook();
    let h = std::thread::Builder::new()
        .stack_size(2 << 20)
        .spawn(move || {
            let stdin = std::io::stdin();
            let stdout = std::io::stdout();
            for line in stdin.lock().lines() {
                let Ok(line) = line else { break };
                let case = unescape(&line);
                let ans = match catch(|| subject(&case)) {
                    Ok(a) => a,
                    Err(p) => format!("PANIC {p}"),
                };
                let ans = ans.replace('\n', "\\n").replace('\r', "\\r");
                let mut o = stdout.lock();
                let _ = writeln!(o, "{ans}");
                let _ = o.flush();
            }
        })
        .unwrap();
    let _ = h.join();
    std::process::exit(0);
}

pub fn unescape(s: &str) -> String {
    let mut out = String::with_capacity(s.len());
    let mut it = s.chars();
    while let Some(c) = it.next() {
        if c == '\\' {
            match it.next() {
                Some('n') => out.push('\n'),
                Some('r') => out.push('\r'),
                Some('\\') => out.push('\\'),
                Some(o) => {
                    out.push('\\');
                    out.push(o)
                }
                None => out.push('\\'),
            }
        } else {
            out.push(c);
        }
    }
    out
}

pub fn hex(b: &[u8]) -> String {
    b.iter().map(|x| format!("{x:02x}")).collect()
}

pub fn unhex(s: &str) -> Vec<u8> {
    (0..s.len() / 2)
        .map(|i| u8::from_str_radix(&s[2 * i..2 * i + 2], 16).unwrap_or(0))
        .collect()
}
