//! Helpers around the public geodesy API
#![allow(dead_code)]
use crate::engine::{bits, hash_of};
use geodesy::authoring::*;

pub type C4 = [f64; 4];

pub fn to_set(v: &[C4]) -> Vec<Coor4D> {
    v.iter().map(|c| Coor4D(*c)).collect()
}
pub fn from_set(v: &[Coor4D]) -> Vec<C4> {
    v.iter().map(|c| c.0).collect()
}

/// Apply through the context; returns (count, resulting tuples)
pub fn apply<C: Context>(ctx: &C, op: OpHandle, dir: Direction, data: &[C4]) -> (usize, Vec<C4>) {
    let mut set = to_set(data);
    let n = ctx.apply(op, dir, &mut set).unwrap_or(usize::MAX);
    (n, from_set(&set))
}

pub fn dir_name(d: &Direction) -> &'static str {
    match d {
        Fwd => "fwd",
        Inv => "inv",
    }
}

/// Generic probe set: values that are meaningful as (lon, lat) radians, as metres and as
/// plain numbers; all twelve leading values distinct; dyadic so additions are exact
pub const PROBES: [C4; 3] = [
    [0.1875, 0.9375, 100.5, 2001.25],
    [-0.4375, 0.3125, -12.75, 1995.5],
    [1.3125, -0.8125, 3.25, 2030.0],
];

/// Behavioural fingerprint of an operator: outputs and counts in both directions
pub fn fingerprint<C: Context>(ctx: &C, op: OpHandle) -> Vec<u64> {
    let mut out = Vec::with_capacity(32);
    for dir in [Fwd, Inv] {
        let (n, res) = apply(ctx, op, dir, &PROBES);
        out.push(n as u64);
        for c in res {
            for x in c {
                out.push(bits(x));
            }
        }
    }
    out
}

pub fn fingerprint_hash<C: Context>(ctx: &C, op: OpHandle) -> u64 {
    hash_of(&fingerprint(ctx, op))
}

pub fn same_bits(a: &[C4], b: &[C4]) -> bool {
    a.len() == b.len()
        && a.iter()
            .zip(b.iter())
            .all(|(x, y)| (0..4).all(|i| bits(x[i]) == bits(y[i])))
}

/// Private working directory for Plain (cwd and XDG_DATA_HOME), removed by `leave_private_workdir`
pub fn enter_private_workdir() -> std::path::PathBuf {
    let dir = std::path::PathBuf::from(crate::engine::VERIF_ROOT).join(".work").join(format!("{}", std::process::id()));
    let _ = std::fs::remove_dir_all(&dir);
    std::fs::create_dir_all(dir.join("geodesy").join("resources")).expect("create work dir");
    std::fs::create_dir_all(dir.join("xdg")).expect("create work dir");
    let dir = std::fs::canonicalize(&dir).unwrap();
    std::env::set_current_dir(&dir).expect("chdir");
    std::env::set_var("XDG_DATA_HOME", dir.join("xdg"));
    std::env::set_var("HOME", dir.join("xdg"));
    dir
}

pub fn leave_private_workdir(dir: &std::path::Path) {
    let _ = std::env::set_current_dir("/");
    let _ = std::fs::remove_dir_all(dir);
}
