//! Catalogue of operator definitions shared by several properties
#![allow(dead_code)]

#[derive(Clone, Copy, Debug, PartialEq)]
pub enum Input {
    /// (lon, lat) in radians, height, epoch
    Geo,
    /// geocentric cartesian X, Y, Z, epoch
    Cart,
    /// any numbers
    Generic,
    /// (lat, lon) in degrees (geodesic, latitude ops working in degrees...)
    GeoDeg,
    /// zeros of either sign in every element, epochs included (neighbouring tuples whose epochs compare
    /// equal without being the same number)
    SignedZeros,
}

#[derive(Clone, Debug)]
pub struct Entry {
    pub def: &'static str,
    pub input: Input,
    pub elementary: bool,
    pub needs_grids: bool,
    pub invertible: bool,
}

const fn e(def: &'static str, input: Input) -> Entry {
    Entry { def, input, elementary: true, needs_grids: false, invertible: true }
}
const fn oneway(def: &'static str, input: Input) -> Entry {
    Entry { def, input, elementary: true, needs_grids: false, invertible: false }
}
const fn pipe(def: &'static str, input: Input) -> Entry {
    Entry { def, input, elementary: false, needs_grids: false, invertible: true }
}
const fn grid(def: &'static str, input: Input, elementary: bool) -> Entry {
    Entry { def, input, elementary, needs_grids: true, invertible: true }
}

/// Every built-in operator in at least one parameterisation, plus pipelines
pub fn catalogue() -> Vec<Entry> {
    use Input::*;
    vec![
        e("addone", Generic),
        e("adapt from=neuf_deg to=enuf_rad", Generic),
        e("axisswap order=2,-1,4,3", Generic),
        e("unitconvert xy_in=deg xy_out=rad z_in=ft", Generic),
        e("noop", Generic),
        e("dm", Generic),
        e("dms", Generic),
        e("helmert x=-87 y=-96 z=-120", Cart),
        e("helmert translation=-87,-96,-120 rotation=0.1,-0.2,0.3 s=1.5 convention=position_vector", Cart),
        e("helmert x=0.1 y=0.2 z=0.3 rx=0.001 ry=0.002 rz=0.003 s=0.01 dx=0.01 dy=0.02 dz=0.03 drx=0.0001 dry=0.0002 drz=0.0003 ds=0.001 t_epoch=2000 convention=coordinate_frame", Cart),
        e("helmert x=0.1 y=0.2 z=0.3 dx=0.01 dy=0.02 dz=0.03 t_epoch=2000", Cart),
        e("helmert x=0.1 y=0.2 z=0.3 dx=0.01 dy=0.02 dz=0.03 ds=0.5 t_epoch=2000 t_obs=2010", Cart),
        e("helmert x=1 rotation=3,2,1 exact convention=coordinate_frame", Cart),
        e("helmert translation=-0,0,0 dx=1 dy=-1 t_epoch=0", SignedZeros),
        e("cart", Geo),
        e("cart ellps=intl inv", Cart),
        e("molodensky ellps_0=intl ellps_1=GRS80 dx=-87 dy=-96 dz=-120", Geo),
        e("molodensky ellps_0=intl ellps_1=GRS80 dx=-87 dy=-96 dz=-120 abridged", Geo),
        e("utm zone=32", Geo),
        e("tmerc lat_0=3 lon_0=9 k_0=0.9996 x_0=500000 y_0=100", Geo),
        e("btmerc lon_0=12 k_0=0.9996", Geo),
        e("butm zone=32", Geo),
        e("merc lat_ts=56", Geo),
        e("webmerc", Geo),
        e("lcc lat_1=33 lat_2=45 lon_0=10 lat_0=40", Geo),
        e("lcc lat_1=57 lon_0=12 k_0=0.99", Geo),
        e("laea lat_0=52 lon_0=10 x_0=4321000 y_0=3210000", Geo),
        e("laea lat_0=90 lon_0=10", Geo),
        e("omerc lonc=12 lat_0=55 alpha=30 k_0=0.9999", Geo),
        e("somerc lat_0=46.9524055555556 lon_0=7.43958333333333 k_0=1 x_0=2600000 y_0=1200000 ellps=bessel", Geo),
        e("latitude geocentric", Geo),
        e("latitude authalic", Geo),
        e("latitude conformal", Geo),
        e("latitude rectifying", Geo),
        e("latitude reduced", Geo),
        e("latitude parametric", Geo),
        e("permtide from=mean to=zero", Geo),
        e("geodesic reversible", GeoDeg),
        e("geodesic", GeoDeg),
        oneway("curvature prime", GeoDeg),
        oneway("curvature gaussian", GeoDeg),
        oneway("gravity grs80", GeoDeg),
        oneway("gravity welmec", GeoDeg),
        pipe("cart ellps=intl | helmert x=-87 y=-96 z=-120 | cart inv ellps=GRS80", Geo),
        pipe("geo:in | utm zone=32 | neu:out", GeoDeg),
        pipe("stack push=1,2 | addone | stack pop=1,2", Generic),
        pipe("stack push=3,4 | helmert x=1 dx=0.5 t_epoch=2000 | stack roll=2,1 | stack flip=1,2 | addone", Generic),
        pipe("push v_1 v_2 | addone | pop v_1 v_2", Generic),
        // stack traffic addressing dimensions a small container does not store (still consumed / produced)
        pipe("push v_1 v_2 | pop v_3 v_1", Generic),
        pipe("push v_3 v_2 | pop v_2 v_1", Generic),
        pipe("stack push=1,2 | stack pop=3,1", Generic),
        pipe("stack push=3,4,1 | stack pop=1,2,4", Generic),
        pipe("addone > helmert x=3 s=1000000 < axisswap order=2,1", Generic),
        pipe("cart | helmert x=0.1 dx=0.01 drz=0.001 ds=0.002 t_epoch=2000 convention=position_vector | cart inv", Geo),
        grid("gridshift grids=test.datum", Geo, true),
        grid("gridshift grids=test.geoid", Geo, true),
        grid("gridshift grids=test.datum, @null", Geo, true),
        grid("gridshift grids=@missing.datum, test_subset.datum, test.datum", Geo, true),
        grid("gridshift grids=5458.gsb", Geo, true),
        grid("gridshift grids=5458_with_subgrid.gsb", Geo, true),
        grid("deformation grids=test.deformation t_epoch=2000", Cart, true),
        grid("deformation grids=test.deformation dt=10", Cart, true),
        grid("deformation grids=test.deformation t_epoch=2000 raw", Cart, true),
        Entry { def: "deflection grids=test.geoid", input: Geo, elementary: true, needs_grids: true, invertible: false },
        grid("cart inv | gridshift grids=test.datum | cart", Cart, false),
    ]
}

/// Copy the repository's shipped grid files into the private work directory
pub fn install_grids(wd: &std::path::Path) {
    for (sub, names) in [
        ("datum", &["test.datum", "test_subset.datum"][..]),
        ("geoid", &["test.geoid"][..]),
        ("deformation", &["test.deformation", "another_test.deformation"][..]),
        ("gsb", &["5458.gsb", "5458_with_subgrid.gsb", "100800401.gsb"][..]),
    ] {
        let dst = wd.join("geodesy").join(sub);
        std::fs::create_dir_all(&dst).expect("mkdir");
        for n in names {
            let src = std::path::Path::new("/repo/geodesy").join(sub).join(n);
            if let Err(e) = std::fs::copy(&src, dst.join(n)) {
                eprintln!("machinery: cannot copy {src:?}: {e}");
            }
        }
    }
}

pub type C4 = [f64; 4];

/// Tuple alphabet per input kind: two distinct epochs, epoch NaN, an out-of-domain member,
/// a NaN member and a duplicate
pub fn tuple_alphabet(input: Input) -> Vec<C4> {
    match input {
        Input::Geo => vec![
            [0.2, 0.95, 10., 2001.],
            // (12.30 E, 56.20 N): inside test_subset.datum AND test.datum, while the first tuple is inside
            // test.datum only — a grid selection that depended on the previous tuple would show
            [0.2147, 0.9809, 20., 2002.5],
            [0.2, 0.95, 10., f64::NAN],
            [0.2, 2.0, 0., 2001.],
            [f64::NAN, 0.9, 0., 2001.],
            [0.2, 0.95, 10., 2001.],
            // exactly at a pole: the apex of a cone, the centre of a polar aspect - a special branch of many projections
            [0.7, std::f64::consts::FRAC_PI_2, 3., 2005.],
            [3.0, -1.2, 1000., 2010.],
            [0.1495, 0.975, 5., 2030.25],
        ],
        Input::Cart => vec![
            [3586469.6568, 762327.6588, 5201383.5231, 2001.],
            [3513638.0, 778956.0, 5248216.0, 2002.5],
            [3586469.6568, 762327.6588, 5201383.5231, f64::NAN],
            [1e9, -2e9, 3e9, 2001.],
            [f64::NAN, 762327.6588, 5201383.5231, 2001.],
            [3586469.6568, 762327.6588, 5201383.5231, 2001.],
            [0., 0., 6356752.0, 2010.],
            [3496737.0, 743254.0, 5264462.0, 2030.25],
        ],
        Input::Generic => vec![
            [1.5, 2.5, 3.5, 2001.],
            [-4.25, 7.75, 0.125, 2002.5],
            [1.5, 2.5, 3.5, f64::NAN],
            [1e300, -1e300, 1e-300, 2001.],
            [f64::NAN, 2.5, 3.5, 2001.],
            [1.5, 2.5, 3.5, 2001.],
            [5530.15, -1245.15, 100., 2010.],
            [0., -0., 0., 0.],
        ],
        Input::SignedZeros => vec![
            [-0., -0., -0., 0.],
            [-0., -0., -0., -0.],
            [0., 0., 0., -0.],
            [0., 0., 0., 0.],
            [1., 2., 3., -0.],
            [1., 2., 3., 0.],
            [-0., 0., -0., 1.],
            [0., -0., 0., -1.],
        ],
        Input::GeoDeg => vec![
            [55., 12., 100., 2001.],
            [59.5, 18.25, 30., 2002.5],
            [55., 12., 100., f64::NAN],
            [95., 200., 0., 2001.],
            [f64::NAN, 12., 45., 2001.],
            [55., 12., 100., 2001.],
            [-33.9, 151.2, 1000., 2010.],
            [0., 0., 90., 100000.],
        ],
    }
}
