//! Grid generators (Gravsoft text, NTv2 binary) and the reference bilinear interpolator
#![allow(dead_code)]

/// Reference grid in the library's internal conventions: radians, rows north to south,
/// columns west to east, bands interleaved, values as stored (f32)
#[derive(Clone, Debug)]
pub struct RefGrid {
    pub lat_n: f64,
    pub lat_s: f64,
    pub lon_w: f64,
    pub lon_e: f64,
    pub dlat: f64, // positive
    pub dlon: f64, // positive
    pub rows: usize,
    pub cols: usize,
    pub bands: usize,
    pub values: Vec<f32>, // rows*cols*bands
}

impl RefGrid {
    pub fn node(&self, row: usize, col: usize, band: usize) -> f64 {
        self.values[(row * self.cols + col) * self.bands + band] as f64
    }
    pub fn contains(&self, lon: f64, lat: f64, margin: f64) -> bool {
        let (gl, gp) = (margin * self.dlon, margin * self.dlat);
        lat >= self.lat_s - gp && lat <= self.lat_n + gp && lon >= self.lon_w - gl && lon <= self.lon_e + gl
    }
    /// bilinear interpolation / linear continuation from the nearest cell
    pub fn at(&self, lon: f64, lat: f64) -> Vec<f64> {
        let fx = (lon - self.lon_w) / self.dlon;
        let fy = (self.lat_n - lat) / self.dlat; // from the north
        let col = (fx.floor() as i64).clamp(0, self.cols as i64 - 2) as usize;
        let row_upper = ((fy.ceil() as i64) - 1).clamp(0, self.rows as i64 - 2) as usize; // row index of the upper nodes
        let t = fx - col as f64;
        let u_from_top = fy - row_upper as f64; // 0 at the upper nodes, 1 at the lower nodes
        (0..self.bands)
            .map(|b| {
                let (ul, ur) = (self.node(row_upper, col, b), self.node(row_upper, col + 1, b));
                let (ll, lr) = (self.node(row_upper + 1, col, b), self.node(row_upper + 1, col + 1, b));
                let upper = (1. - t) * ul + t * ur;
                let lower = (1. - t) * ll + t * lr;
                (1. - u_from_top) * upper + u_from_top * lower
            })
            .collect()
    }
    /// min and max of the four corner values of the cell containing the point
    pub fn corner_range(&self, lon: f64, lat: f64, band: usize) -> (f64, f64) {
        let fx = (lon - self.lon_w) / self.dlon;
        let fy = (self.lat_n - lat) / self.dlat;
        let col = (fx.floor() as i64).clamp(0, self.cols as i64 - 2) as usize;
        let row = ((fy.ceil() as i64) - 1).clamp(0, self.rows as i64 - 2) as usize;
        let v = [self.node(row, col, band), self.node(row, col + 1, band), self.node(row + 1, col, band), self.node(row + 1, col + 1, band)];
        (v.iter().cloned().fold(f64::INFINITY, f64::min), v.iter().cloned().fold(f64::NEG_INFINITY, f64::max))
    }
}

/// asymmetric integer hash so that node values are never equal to coordinates or to each other by accident
pub fn node_value(seed: u32, row: usize, col: usize, band: usize) -> f64 {
    let mut h = seed.wrapping_mul(2654435761).wrapping_add((row as u32).wrapping_mul(40503)).wrapping_add((col as u32).wrapping_mul(9973)).wrapping_add((band as u32).wrapping_mul(7919));
    h ^= h >> 13;
    h = h.wrapping_mul(1274126177);
    h ^= h >> 16;
    // a modest magnitude with 1/8 resolution: exactly representable in f32 and in a short decimal text
    ((h % 2001) as f64 - 1000.) / 8.
}

/// Geometry in degrees, as written in a Gravsoft header
#[derive(Clone, Debug)]
pub struct GeoDeg {
    pub lat_s: f64,
    pub lat_n: f64,
    pub lon_w: f64,
    pub lon_e: f64,
    pub dlat: f64,
    pub dlon: f64,
}

impl GeoDeg {
    pub fn rows(&self) -> usize {
        ((self.lat_n - self.lat_s) / self.dlat + 1.5).floor() as usize
    }
    pub fn cols(&self) -> usize {
        ((self.lon_e - self.lon_w) / self.dlon + 1.5).floor() as usize
    }
}

#[derive(Clone, Copy, Debug, PartialEq)]
pub enum TextLayout {
    RowPerLine,
    OneValuePerLine,
    WithComments,
    Crlf,
    TabsAndBlankLines,
    /// comments start right after a number, without a blank: `56.10# northernmost`
    GluedComments,
}

/// Gravsoft text: header `lat_s lat_n lon_w lon_e dlat dlon`, then rows north to south, west to east, bands
/// interleaved in FILE order (datum grids: lat, lon in arcsec; deformation: lat/north, lon/east, up in mm/yr; geoid: m)
pub fn gravsoft_text(g: &GeoDeg, bands: usize, file_value: &dyn Fn(usize, usize, usize) -> f64, layout: TextLayout) -> String {
    let eol = if layout == TextLayout::Crlf { "\r\n" } else { "\n" };
    let mut s = String::new();
    if layout == TextLayout::WithComments || layout == TextLayout::GluedComments {
        s.push_str("# a generated Gravsoft grid\n");
    }
    s.push_str(&format!("{:?} {:?} {:?} {:?} {:?} {:?}{}", g.lat_s, g.lat_n, g.lon_w, g.lon_e, g.dlat, g.dlon, match layout { TextLayout::WithComments => "   # header", TextLayout::GluedComments => "# header 1 2 3", _ => "" }));
    s.push_str(eol);
    if layout == TextLayout::TabsAndBlankLines {
        s.push_str(eol);
    }
    for r in 0..g.rows() {
        for c in 0..g.cols() {
            for b in 0..bands {
                let v = file_value(r, c, b);
                match layout {
                    TextLayout::OneValuePerLine => {
                        s.push_str(&format!("{v:?}{eol}"));
                    }
                    TextLayout::TabsAndBlankLines => s.push_str(&format!("\t{v:?}\t")),
                    _ => s.push_str(&format!(" {v:?}")),
                }
            }
        }
        if layout != TextLayout::OneValuePerLine {
            if layout == TextLayout::WithComments && r % 2 == 0 {
                s.push_str("  # end of row");
            }
            if layout == TextLayout::GluedComments {
                s.push_str(if r % 2 == 0 { "# end of row" } else { "#north 7" });
            }
            s.push_str(eol);
            if layout == TextLayout::TabsAndBlankLines && r % 2 == 1 {
                s.push_str(eol);
            }
        }
    }
    s
}

/// The reference grid the library should end up with after decoding a Gravsoft file with the
/// documented unit/order conventions applied to `file_value`
pub fn gravsoft_reference(g: &GeoDeg, bands: usize, file_value: &dyn Fn(usize, usize, usize) -> f64) -> RefGrid {
    let (rows, cols) = (g.rows(), g.cols());
    let mut values = Vec::with_capacity(rows * cols * bands);
    for r in 0..rows {
        for c in 0..cols {
            let f: Vec<f32> = (0..bands).map(|b| file_value(r, c, b) as f32).collect();
            match bands {
                1 => values.push(f[0]),
                2 => {
                    // file: (lat, lon) arcsec -> stored (lon, lat) radians
                    values.push((f[1] / 3600.0).to_radians());
                    values.push((f[0] / 3600.0).to_radians());
                }
                3 => {
                    // file: (north, east, up) mm/yr -> stored (east, north, up) m/yr
                    values.push(f[1] / 1000.0);
                    values.push(f[0] / 1000.0);
                    values.push(f[2] / 1000.0);
                }
                _ => values.extend(f),
            }
        }
    }
    RefGrid {
        lat_n: g.lat_n.to_radians(),
        lat_s: g.lat_s.to_radians(),
        lon_w: g.lon_w.to_radians(),
        lon_e: g.lon_e.to_radians(),
        dlat: g.dlat.to_radians(),
        dlon: g.dlon.to_radians(),
        rows,
        cols,
        bands,
        values,
    }
}

// ----- NTv2 ------------------------------------------------------------------------------------------

#[derive(Clone, Debug)]
pub struct SubGrid {
    pub name: String,
    pub parent: String, // "NONE" for a root
    /// bounds in degrees, east positive
    pub lat_s: f64,
    pub lat_n: f64,
    pub lon_w: f64,
    pub lon_e: f64,
    pub dlat: f64,
    pub dlon: f64,
    pub seed: u32,
}

impl SubGrid {
    pub fn rows(&self) -> usize {
        ((self.lat_n - self.lat_s) / self.dlat + 0.5).floor() as usize + 1
    }
    pub fn cols(&self) -> usize {
        ((self.lon_e - self.lon_w) / self.dlon + 0.5).floor() as usize + 1
    }
    /// shifts in arcsec as written in the file: (lat shift, lon shift positive WEST) at row r from the north, col c from the west
    pub fn file_shift(&self, r: usize, c: usize) -> (f32, f32) {
        (node_value(self.seed, r, c, 0) as f32 / 64., node_value(self.seed, r, c, 1) as f32 / 64.)
    }
    pub fn reference(&self) -> RefGrid {
        let (rows, cols) = (self.rows(), self.cols());
        let mut values = Vec::with_capacity(rows * cols * 2);
        for r in 0..rows {
            for c in 0..cols {
                let (la, lo) = self.file_shift(r, c);
                // stored: (lon shift east positive, lat shift) in radians, computed in f64 then rounded to f32
                values.push(((-(lo as f64)) / 3600.).to_radians() as f32);
                values.push(((la as f64) / 3600.).to_radians() as f32);
            }
        }
        RefGrid {
            lat_n: self.lat_n.to_radians(),
            lat_s: self.lat_s.to_radians(),
            lon_w: self.lon_w.to_radians(),
            lon_e: self.lon_e.to_radians(),
            dlat: self.dlat.to_radians(),
            dlon: self.dlon.to_radians(),
            rows,
            cols,
            bands: 2,
            values,
        }
    }
}

fn put_key(buf: &mut Vec<u8>, key: &str) {
    let mut k = key.as_bytes().to_vec();
    k.resize(8, b' ');
    buf.extend(k);
}
fn put_u32(buf: &mut Vec<u8>, v: u32, be: bool) {
    buf.extend(if be { v.to_be_bytes() } else { v.to_le_bytes() });
    buf.extend([0u8; 4]);
}
fn put_f64(buf: &mut Vec<u8>, v: f64, be: bool) {
    buf.extend(if be { v.to_be_bytes() } else { v.to_le_bytes() });
}
fn put_f32(buf: &mut Vec<u8>, v: f32, be: bool) {
    buf.extend(if be { v.to_be_bytes() } else { v.to_le_bytes() });
}
fn put_str(buf: &mut Vec<u8>, v: &str) {
    let mut k = v.as_bytes().to_vec();
    k.resize(8, b' ');
    buf.extend(k);
}

/// Encode an NTv2 file: overview header + sub-grids in the given order
pub fn ntv2_bytes(subgrids: &[SubGrid], big_endian: bool) -> Vec<u8> {
    let be = big_endian;
    let mut b = Vec::new();
    put_key(&mut b, "NUM_OREC");
    put_u32(&mut b, 11, be);
    put_key(&mut b, "NUM_SREC");
    put_u32(&mut b, 11, be);
    put_key(&mut b, "NUM_FILE");
    put_u32(&mut b, subgrids.len() as u32, be);
    put_key(&mut b, "GS_TYPE");
    put_str(&mut b, "SECONDS");
    put_key(&mut b, "VERSION");
    put_str(&mut b, "NTv2.0");
    put_key(&mut b, "SYSTEM_F");
    put_str(&mut b, "FROM");
    put_key(&mut b, "SYSTEM_T");
    put_str(&mut b, "TO");
    put_key(&mut b, "MAJOR_F");
    put_f64(&mut b, 6378388.0, be);
    put_key(&mut b, "MINOR_F");
    put_f64(&mut b, 6356911.946, be);
    put_key(&mut b, "MAJOR_T");
    put_f64(&mut b, 6378137.0, be);
    put_key(&mut b, "MINOR_T");
    put_f64(&mut b, 6356752.314, be);
    for s in subgrids {
        put_key(&mut b, "SUB_NAME");
        put_str(&mut b, &s.name);
        put_key(&mut b, "PARENT");
        put_str(&mut b, &s.parent);
        put_key(&mut b, "CREATED");
        put_str(&mut b, "20240101");
        put_key(&mut b, "UPDATED");
        put_str(&mut b, "20240101");
        put_key(&mut b, "S_LAT");
        put_f64(&mut b, s.lat_s * 3600., be);
        put_key(&mut b, "N_LAT");
        put_f64(&mut b, s.lat_n * 3600., be);
        // longitudes are positive west in the file
        put_key(&mut b, "E_LONG");
        put_f64(&mut b, -s.lon_e * 3600., be);
        put_key(&mut b, "W_LONG");
        put_f64(&mut b, -s.lon_w * 3600., be);
        put_key(&mut b, "LAT_INC");
        put_f64(&mut b, s.dlat * 3600., be);
        put_key(&mut b, "LONG_INC");
        put_f64(&mut b, s.dlon * 3600., be);
        put_key(&mut b, "GS_COUNT");
        put_u32(&mut b, (s.rows() * s.cols()) as u32, be);
        // nodes: rows south to north, within a row east to west
        let (rows, cols) = (s.rows(), s.cols());
        for r in (0..rows).rev() {
            for c in (0..cols).rev() {
                let (la, lo) = s.file_shift(r, c);
                put_f32(&mut b, la, be);
                put_f32(&mut b, lo, be);
                put_f32(&mut b, 0.01, be);
                put_f32(&mut b, 0.02, be);
            }
        }
    }
    // the customary END record
    put_key(&mut b, "END");
    put_f64(&mut b, 3.33e32, be);
    b
}
