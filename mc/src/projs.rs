//! Table of plane projections: every aspect visible in the constructors, with documented domains
#![allow(dead_code)]

#[derive(Clone, Copy, Debug, PartialEq)]
pub enum Class {
    /// "a few micrometres or better": 10 um
    Rigorous,
    /// "millimetre level": btmerc, omerc
    Approximate,
}

#[derive(Clone, Debug)]
pub struct Proj {
    pub op: &'static str,
    pub aspect: &'static str,
    /// definition without ellps (the ellipsoid is appended as ellps=...)
    pub def: String,
    pub lon_c: f64,
    pub lat_c: f64,
    pub max_dlon: f64,
    pub max_abs_lat: f64,
    /// limit on the angular distance from the centre (laea), degrees
    pub max_angular: Option<f64>,
    /// restrict latitudes to one side (lcc near the opposite pole is a singularity)
    pub lat_min: f64,
    pub lat_max: f64,
    pub class: Class,
    pub conformal: bool,
    pub equal_area: bool,
    /// takes an ellps parameter
    pub takes_ellps: bool,
}

fn p(op: &'static str, aspect: &'static str, def: &str, lon_c: f64, lat_c: f64) -> Proj {
    Proj {
        op,
        aspect,
        def: def.to_string(),
        lon_c,
        lat_c,
        max_dlon: 180.,
        max_abs_lat: 89.9,
        max_angular: None,
        lat_min: -89.9,
        lat_max: 89.9,
        class: Class::Rigorous,
        conformal: true,
        equal_area: false,
        takes_ellps: true,
    }
}

pub fn projections() -> Vec<Proj> {
    let mut v = Vec::new();
    // Mercator: whole globe except the poles
    v.push(p("merc", "default", "merc", 0., 0.));
    v.push(p("merc", "lon_0", "merc lon_0=9", 9., 0.));
    v.push(p("merc", "offsets+k_0", "merc lon_0=-100 x_0=500000 y_0=-1234.5 k_0=0.9996", -100., 0.));
    v.push(p("merc", "lat_ts north", "merc lat_ts=56 lon_0=12", 12., 0.));
    v.push(p("merc", "lat_ts south", "merc lat_ts=-30", 0., 0.));
    {
        let mut w = p("webmerc", "default", "webmerc", 0., 0.);
        w.conformal = false; // conformal only on the sphere
        // (the whole globe except the poles, like merc: the square cut at 85.05 degrees is a convention of
        // tile servers, not of the projection)
        v.push(w);
    }
    // Transverse Mercator: within 30 degrees of the central meridian (60 for the geometry checks)
    for (aspect, def, lon_c, lat_c) in [
        ("default", "tmerc", 0., 0.),
        ("all five", "tmerc lat_0=3 lon_0=9 k_0=0.9996 x_0=500000 y_0=100", 9., 3.),
        ("southern origin", "tmerc lat_0=-45 lon_0=-70 k_0=1.0001 x_0=-1000 y_0=2000000", -70., -45.),
    ] {
        let mut t = p("tmerc", aspect, def, lon_c, lat_c);
        t.max_dlon = 30.;
        t.max_abs_lat = 90.;
        t.lat_min = -90.;
        t.lat_max = 90.;
        v.push(t);
    }
    for zone in [1, 30, 31, 32, 60] {
        for south in [false, true] {
            let def = format!("utm zone={zone}{}", if south { " south" } else { "" });
            let mut t = p("utm", if south { "south" } else { "north" }, &def, 6. * zone as f64 - 183., 0.);
            t.max_dlon = 30.;
            t.max_abs_lat = 90.;
            t.lat_min = -90.;
            t.lat_max = 90.;
            v.push(t);
        }
    }
    // Bowring's truncated TM: 3 degrees
    for (aspect, def, lon_c, lat_c) in [("default", "btmerc", 0., 0.), ("all five", "btmerc lat_0=3 lon_0=9 k_0=0.9996 x_0=500000 y_0=100", 9., 3.)] {
        let mut t = p("btmerc", aspect, def, lon_c, lat_c);
        t.max_dlon = 3.;
        t.max_abs_lat = 84.;
        t.lat_min = -84.;
        t.lat_max = 84.;
        t.class = Class::Approximate;
        v.push(t);
    }
    for (zone, south) in [(32, false), (60, true)] {
        let def = format!("butm zone={zone}{}", if south { " south" } else { "" });
        let mut t = p("butm", if south { "south" } else { "north" }, &def, 6. * zone as f64 - 183., 0.);
        t.max_dlon = 3.;
        t.max_abs_lat = 84.;
        t.lat_min = -84.;
        t.lat_max = 84.;
        t.class = Class::Approximate;
        v.push(t);
    }
    // Lambert conformal conic: 1SP/2SP, north/south, with lat_0
    for (aspect, def, lon_c, lat_c, north) in [
        ("1SP north", "lcc lat_1=57 lon_0=12 k_0=0.99", 12., 57., true),
        ("2SP north + lat_0 + offsets", "lcc lat_1=33 lat_2=45 lon_0=10 lat_0=40 x_0=400000 y_0=-300000", 10., 40., true),
        ("2SP south + lat_0", "lcc lat_1=-33 lat_2=-45 lon_0=-60 lat_0=-40", -60., -40., false),
        ("1SP south", "lcc lat_1=-57 lon_0=150 lat_0=-57", 150., -57., false),
        ("2SP north scaled", "lcc lat_1=49 lat_2=77 lat_0=49 lon_0=-95 k_0=0.9 x_0=1 y_0=2", -95., 49., true),
    ] {
        let mut t = p("lcc", aspect, def, lon_c, lat_c);
        // the cone is cut along the meridian opposite the central one: the map is discontinuous there
        t.max_dlon = 179.9;
        // the pole of the opposite hemisphere is at infinity
        if north {
            t.lat_min = -80.;
        } else {
            t.lat_max = 80.;
        }
        v.push(t);
    }
    // Lambert azimuthal equal area: all aspects, within 150 degrees of the centre
    for (aspect, def, lon_c, lat_c) in [
        ("oblique", "laea lat_0=52 lon_0=10 x_0=4321000 y_0=3210000", 10., 52.),
        ("oblique south", "laea lat_0=-37.5 lon_0=145", 145., -37.5),
        ("equatorial", "laea lat_0=0 lon_0=-70 x_0=100 y_0=200", -70., 0.),
        ("polar north", "laea lat_0=90 lon_0=10", 10., 90.),
        ("polar south", "laea lat_0=-90 lon_0=30 x_0=1000 y_0=2000", 30., -90.),
    ] {
        let mut t = p("laea", aspect, def, lon_c, lat_c);
        t.conformal = false;
        t.equal_area = true;
        t.max_angular = Some(150.);
        t.max_abs_lat = 90.;
        t.lat_min = -90.;
        t.lat_max = 90.;
        v.push(t);
    }
    // Oblique Mercator: variants A, B, Laborde; several azimuths
    for (aspect, def, lon_c, lat_c) in [
        ("variant B (EPSG example)", "omerc variant x_0=590476.87 y_0=442857.65 latc=4 lonc=115 k_0=0.99984 alpha=53:18:56.9537 gamma_c=53:07:48.3685", 115., 4.),
        ("variant A", "omerc x_0=1000 y_0=2000 latc=45 lonc=-86 k_0=0.9996 alpha=337.25556 gamma_c=337.25556", -86., 45.),
        ("Laborde (no gamma_c)", "omerc latc=-18.9 lonc=46.437 k_0=0.9995 alpha=18.9 x_0=400000 y_0=800000", 46.437, -18.9),
        ("variant A alpha=-30", "omerc latc=30 lonc=10 alpha=-30 gamma_c=-30", 10., 30.),
        ("variant B alpha=90", "omerc variant latc=30 lonc=10 alpha=90 gamma_c=90 k_0=0.999", 10., 30.),
    ] {
        let mut t = p("omerc", aspect, def, lon_c, lat_c);
        t.class = Class::Approximate;
        t.max_dlon = 10.;
        t.lat_min = (lat_c - 10.).max(-89.);
        t.lat_max = (lat_c + 10.).min(89.);
        v.push(t);
    }
    // Swiss oblique Mercator
    for (aspect, def, lon_c, lat_c) in [
        ("LV95", "somerc lat_0=46.9524055555556 lon_0=7.43958333333333 k_0=1 x_0=2600000 y_0=1200000", 7.43958333333333, 46.9524055555556),
        ("other centre", "somerc lat_0=-30 lon_0=120 k_0=0.9999 x_0=100 y_0=200", 120., -30.),
    ] {
        let mut t = p("somerc", aspect, def, lon_c, lat_c);
        t.max_dlon = 20.;
        t.lat_min = (lat_c - 20.).max(-89.);
        t.lat_max = (lat_c + 20.).min(89.);
        v.push(t);
    }
    // every aspect that is listed without false origin offsets also appears with both of them (different
    // magnitudes, y_0 not a multiple of x_0): an offset handled wrongly in one branch of one aspect must
    // not hide behind a zero
    let mut w = Vec::new();
    for t in &v {
        if t.op == "utm" || t.op == "butm" || t.op == "webmerc" || (t.def.contains("x_0=") && t.def.contains("y_0=")) {
            continue;
        }
        let mut u = t.clone();
        let keep: Vec<&str> = t.def.split(' ').filter(|k| !k.starts_with("x_0=") && !k.starts_with("y_0=")).collect();
        u.def = format!("{} x_0=4321000 y_0=-3210000.5", keep.join(" "));
        u.aspect = Box::leak(format!("{} + offsets", t.aspect).into_boxed_str());
        w.push(u);
    }
    v.extend(w);
    v.extend(generated());
    // the same definition listed twice is evaluated once
    let mut seen = std::collections::HashSet::new();
    v.retain(|t| seen.insert(t.def.clone()));
    v
}

/// Complete products over small per-projection parameter alphabets. The aspect label names the
/// branch class (not the values), so that one root cause is reported under one key.
fn generated() -> Vec<Proj> {
    let mut v = Vec::new();
    let leak = |s: String| -> &'static str { Box::leak(s.into_boxed_str()) };
    let offs = [("", ""), (" x_0=500000 y_0=-1234.5", " + offsets")];
    // merc: lon_0 x (k_0 | lat_ts) x offsets
    for lon_0 in [0., 9., -100., 179.5] {
        for (scale, sl) in [("", "k_0=1"), (" k_0=0.9996", "k_0"), (" lat_ts=56", "lat_ts north"), (" lat_ts=-30", "lat_ts south"), (" lat_ts=85", "lat_ts north")] {
            for (o, ol) in offs {
                v.push(p("merc", leak(format!("gen {sl}{ol}")), &format!("merc lon_0={lon_0}{scale}{o}"), lon_0, 0.));
            }
        }
    }
    // merc also accepts lat_0 (what it means for the northing is not specified, so only conformality, the
    // scale on the equator and the round trip are judged for these)
    for lat_0 in [1., -35.] {
        for (scale, sl) in [("", ""), (" k_0=0.9996", " k_0"), (" lat_ts=56", " lat_ts")] {
            for (o, ol) in offs {
                v.push(p("merc", leak(format!("gen lat_0{sl}{ol}")), &format!("merc lat_0={lat_0} lon_0=9{scale}{o}"), 9., 0.));
            }
        }
    }
    // tmerc / btmerc: lat_0 x lon_0 x k_0 x offsets
    for (op, lat0s, max_dlon, max_lat, class) in [("tmerc", vec![0., 3., -45., 89.], 30., 90., Class::Rigorous), ("btmerc", vec![0., 3., -45.], 3., 84., Class::Approximate)] {
        for &lat_0 in &lat0s {
            for lon_0 in [0., 9., -70., 179.5] {
                for (k, kl) in [("", "k_0=1"), (" k_0=0.9996", "k_0")] {
                    for (o, ol) in offs {
                        let ll = if lat_0 == 0. { "lat_0=0" } else if lat_0 > 0. { "lat_0 north" } else { "lat_0 south" };
                        let mut t = p(op, leak(format!("gen {ll} {kl}{ol}")), &format!("{op} lat_0={lat_0} lon_0={lon_0}{k}{o}"), lon_0, lat_0);
                        t.max_dlon = max_dlon;
                        t.max_abs_lat = max_lat;
                        t.lat_min = -max_lat;
                        t.lat_max = max_lat;
                        t.class = class;
                        v.push(t);
                    }
                }
            }
        }
    }
    // lcc: standard parallels / origin x lon_0 x k_0 x offsets
    for (par, pl, lat_c, north) in [
        ("lat_1=57", "1SP north", 57., true),
        ("lat_1=57 lat_0=57", "1SP north + lat_0", 57., true),
        ("lat_1=33 lat_2=45 lat_0=40", "2SP north + lat_0", 40., true),
        ("lat_1=33 lat_2=45", "2SP north", 39., true),
        ("lat_1=45 lat_2=33", "2SP north (parallels reversed)", 39., true),
        ("lat_1=-33 lat_2=-45 lat_0=-40", "2SP south + lat_0", -40., false),
        ("lat_1=-57 lat_0=-57", "1SP south + lat_0", -57., false),
        ("lat_1=49 lat_2=77 lat_0=49", "2SP north + lat_0", 49., true),
        ("lat_1=45 lat_2=45 lat_0=45", "2SP with equal parallels", 45., true),
        ("lat_1=30 lat_2=60 lat_0=10", "2SP north + lat_0", 10., true),
    ] {
        for lon_0 in [12., -95., 150.] {
            for (k, kl) in [("", ""), (" k_0=0.99", " scaled")] {
                for (o, ol) in offs {
                    let mut t = p("lcc", leak(format!("gen {pl}{kl}{ol}")), &format!("lcc {par} lon_0={lon_0}{k}{o}"), lon_0, lat_c);
                    t.max_dlon = 179.9;
                    if north {
                        t.lat_min = -80.;
                    } else {
                        t.lat_max = 80.;
                    }
                    v.push(t);
                }
            }
        }
    }
    // laea: lat_0 x lon_0 x offsets
    for (lat_0, al) in [(90., "polar north"), (-90., "polar south"), (0., "equatorial"), (52., "oblique north"), (-37.5, "oblique south"), (10., "oblique north"), (-80., "oblique south")] {
        for lon_0 in [10., 145., -70., 180.] {
            for (o, ol) in offs {
                let mut t = p("laea", leak(format!("gen {al}{ol}")), &format!("laea lat_0={lat_0} lon_0={lon_0}{o}"), lon_0, lat_0);
                t.conformal = false;
                t.equal_area = true;
                t.max_angular = Some(150.);
                t.max_abs_lat = 90.;
                t.lat_min = -90.;
                t.lat_max = 90.;
                v.push(t);
            }
        }
    }
    // omerc: variant x centre x azimuth x offsets
    for (var, vl) in [("", "variant A"), (" variant", "variant B")] {
        // (one centre next to the antimeridian: the domain straddles it)
        for (latc, lonc) in [(4., 115.), (45., -86.), (-18.9, 46.437), (30., 10.), (-30., -60.), (-17., 178.), (0., 20.)] {
            for alpha in [53.3158, -30., 18.9, 90., 337.25556, 91., 135., 200., -90.] {
                for (o, ol) in offs {
                    let hl = if latc > 0. { "north" } else if latc == 0. { "equator" } else { "south" };
                    let al = if alpha == 90. { "alpha=90".to_string() } else if alpha == -90. { "alpha=-90".to_string() } else if alpha < 0. || alpha > 270. { "alpha west".to_string() } else if alpha > 180. { "alpha obtuse west".to_string() } else if false { "alpha west".to_string() } else if alpha > 90. { "alpha obtuse".to_string() } else { "alpha acute".to_string() };
                    let mut t = p("omerc", leak(format!("gen {vl} {hl} {al}{ol}")), &format!("omerc{var} latc={latc} lonc={lonc} alpha={alpha} gamma_c={alpha} k_0=0.9996{o}"), lonc, latc);
                    t.class = Class::Approximate;
                    t.max_dlon = 10.;
                    t.lat_min = (latc - 10.).max(-89.);
                    t.lat_max = (latc + 10.).min(89.);
                    v.push(t);
                }
            }
        }
    }
    // somerc: centre x k_0 x offsets
    for lat_0 in [46.9524055555556, -30., 10., 60.] {
        for lon_0 in [7.43958333333333, 120., -70., 175.] {
            for (k, kl) in [("", "k_0=1"), (" k_0=0.9999", "k_0")] {
                for (o, ol) in offs {
                    let hl = if lat_0 > 0. { "north" } else { "south" };
                    let mut t = p("somerc", leak(format!("gen {hl} {kl}{ol}")), &format!("somerc lat_0={lat_0} lon_0={lon_0}{k}{o}"), lon_0, lat_0);
                    t.max_dlon = 20.;
                    t.lat_min = (lat_0 - 20.).max(-89.);
                    t.lat_max = (lat_0 + 20.).min(89.);
                    v.push(t);
                }
            }
        }
    }
    v
}

impl Proj {
    pub fn with_ellps(&self, ellps: &str) -> String {
        format!("{} ellps={}", self.def, ellps)
    }
    /// is (lat, lon) in degrees inside the documented domain?
    pub fn contains(&self, lat: f64, lon: f64, max_dlon: f64) -> bool {
        if lat < self.lat_min - 1e-12 || lat > self.lat_max + 1e-12 {
            return false;
        }
        let mut d = (lon - self.lon_c) % 360.;
        if d > 180. {
            d -= 360.;
        }
        if d < -180. {
            d += 360.;
        }
        if d.abs() > max_dlon.min(self.max_dlon) + 1e-12 {
            return false;
        }
        if let Some(m) = self.max_angular {
            if crate::geo::angular_distance(self.lat_c, self.lon_c, lat, lon) > m {
                return false;
            }
        }
        true
    }
}
