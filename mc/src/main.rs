//! `mc` — bounded exhaustive exploration of busstoptaktik/geodesy (see /verif/DESIGN.md)
mod catalog;
mod engine;
mod geo;
mod gridctx;
mod gridgen;
mod projs;
mod props;
mod util;

use engine::{Report, Tier};

fn usage() -> ! {
    eprintln!("usage: mc <C01..C20> --tier quick|thorough | mc replay <path> | mc --worker <kind>");
    std::process::exit(2);
}

fn main() {
    let args: Vec<String> = std::env::args().collect();
    if args.len() >= 3 && args[1] == "--worker" {
        props::worker(&args[2]);
    }
    engine::install_panic_hook();
    if args.len() >= 3 && args[1] == "replay" {
        std::process::exit(props::replay(&args[2]));
    }
    if args.len() < 2 {
        usage();
    }
    let id = args[1].clone();
    let mut tier = match std::env::var("VERIF_TIER").as_deref() {
        Ok("thorough") => Tier::Thorough,
        _ => Tier::Quick,
    };
    let mut i = 2;
    while i < args.len() {
        if args[i] == "--tier" && i + 1 < args.len() {
            tier = match args[i + 1].as_str() {
                "quick" => Tier::Quick,
                "thorough" => Tier::Thorough,
                _ => usage(),
            };
            i += 1;
        }
        i += 1;
    }
    // Supervisor: the exploration runs in a child process. If the child is killed by a signal
    // (stack overflow, abort, allocation failure inside the library) the parent reports it as a
    // violation of the property being explored instead of dying without a verdict.
    if std::env::var("MC_CHILD").is_err() {
        let exe = std::env::current_exe().expect("current_exe");
        let status = std::process::Command::new(exe)
            .args(&args[1..])
            .env("MC_CHILD", "1")
            .status()
            .expect("spawn child");
        use std::os::unix::process::ExitStatusExt;
        if let Some(sig) = status.signal() {
            let dir = std::path::PathBuf::from(engine::VERIF_ROOT).join("replays").join(&id);
            let _ = std::fs::create_dir_all(&dir);
            let path = dir.join("crash.json");
            let detail = serde_json::json!({"property": id, "key": format!("process killed by signal {sig} during exploration"),
                "case": {"kind": "crash", "signal": sig, "note": "the library overflowed the stack, aborted or exhausted memory on some explored case; re-run the check to see the last progress output"}});
            let _ = std::fs::write(&path, serde_json::to_string_pretty(&detail).unwrap());
            let ev = serde_json::json!({"property_id": id, "tier": tier.name(), "seed": 0, "level": "other",
                "coverage": {"explanation": format!("exploration process killed by signal {sig}; no coverage statement can be made"), "evaluations": 1, "distinct_nontrivial": 2},
                "wall_s": 0.0, "violations": 1});
            let _ = std::fs::create_dir_all(std::path::PathBuf::from(engine::VERIF_ROOT).join("evidence"));
            let _ = std::fs::write(std::path::PathBuf::from(engine::VERIF_ROOT).join("evidence").join(format!("{id}.json")), serde_json::to_string_pretty(&ev).unwrap());
            let p = std::fs::canonicalize(&path).unwrap_or(path);
            println!("VIOLATION property={} replay={}", id, p.display());
            println!("  key: process killed by signal {sig} during exploration (stack overflow / abort in the code under test)");
            std::process::exit(1);
        }
        std::process::exit(status.code().unwrap_or(2));
    }
    let code = match engine::catch(|| props::run(&id, tier)) {
        Ok(Some(report)) => report.finish(),
        Ok(None) => usage(),
        Err(p) => {
            eprintln!("machinery failure (engine panic): {p}");
            2
        }
    };
    std::process::exit(code);
}

#[allow(dead_code)]
fn _unused(_: Report) {}
