//! `mc` — bounded exhaustive exploration of busstoptaktik/geodesy (see /verif/DESIGN.md)
mod engine;
mod props;
mod util;

use engine::{Report, Tier};

fn usage() -> ! {
    eprintln!("usage: mc <C01..C20> --tier quick|thorough | mc replay <path> | mc --worker <kind>");
    std::process::exit(2);
}

fn main() {
    let args: Vec<String> = std::env::args().collect();
    if args.len() >= 3 && args[1] == "--worker" {
        props::worker(&args[2]);
    }
    engine::install_panic_hook();
    if args.len() >= 3 && args[1] == "replay" {
        std::process::exit(props::replay(&args[2]));
    }
    if args.len() < 2 {
        usage();
    }
    let id = args[1].clone();
    let mut tier = match std::env::var("VERIF_TIER").as_deref() {
        Ok("thorough") => Tier::Thorough,
        _ => Tier::Quick,
    };
    let mut i = 2;
    while i < args.len() {
        if args[i] == "--tier" && i + 1 < args.len() {
            tier = match args[i + 1].as_str() {
                "quick" => Tier::Quick,
                "thorough" => Tier::Thorough,
                _ => usage(),
            };
            i += 1;
        }
        i += 1;
    }
    let code = match engine::catch(|| props::run(&id, tier)) {
        Ok(Some(report)) => report.finish(),
        Ok(None) => usage(),
        Err(p) => {
            eprintln!("machinery failure (engine panic): {p}");
            2
        }
    };
    std::process::exit(code);
}

#[allow(dead_code)]
fn _unused(_: Report) {}
