//! C08 — grid lookup is bilinear, first-hit among grids, finest sub-grid within a file.
//! Grid geometries x bands x node values from an asymmetric hash x a per-cell query lattice
//! (nodes, edge midpoints, centre, quarter points, 1e-9 either side of every cell edge) + margin
//! and outside points x lists of overlapping grids in all orders with missing/null entries x NTv2
//! trees in all shapes and file orders x gridshift / deformation / deflection. Grids are built from
//! harness-generated Gravsoft text and NTv2 bytes and decoded by the library's own readers;
//! oracle: the harness's bilinear interpolation on the f32-rounded node values.

use crate::engine::*;
use crate::gridctx::GridCtx;
use crate::gridgen::*;
use geodesy::authoring::*;
use serde_json::json;
use std::collections::HashSet;
use std::sync::{Arc, Mutex};

fn rel_close(a: f64, b: f64, scale: f64) -> bool {
    (a - b).abs() <= 1e-12 * scale.max(a.abs()).max(b.abs()) + 1e-300
}

/// query lattice (lon, lat in degrees) for a geometry: per cell nodes, edge midpoints, centre,
/// quarter points, 1e-9 deg either side of every cell edge; plus margin and outside points
static THOROUGH: std::sync::atomic::AtomicBool = std::sync::atomic::AtomicBool::new(false);
fn thorough() -> bool {
    THOROUGH.load(std::sync::atomic::Ordering::Relaxed)
}

fn queries(g: &GeoDeg) -> Vec<(f64, f64, &'static str)> {
    let (rows, cols) = (g.rows(), g.cols());
    let mut q = Vec::new();
    // in-cell positions: quarters (quick), tenths (thorough)
    let fr: Vec<f64> = if thorough() { (0..=10).map(|i| i as f64 / 10.).collect() } else { vec![0., 0.25, 0.5, 0.75, 1.] };
    for r in 0..rows - 1 {
        for c in 0..cols - 1 {
            for &fy in &fr {
                for &fx in &fr {
                    let lat = g.lat_n - (r as f64 + fy) * g.dlat;
                    let lon = g.lon_w + (c as f64 + fx) * g.dlon;
                    q.push((lon, lat, "inside"));
                }
            }
            // either side of the cell's east and south edges
            let lon_e = g.lon_w + (c as f64 + 1.) * g.dlon;
            let lat_s = g.lat_n - (r as f64 + 1.) * g.dlat;
            let latm = g.lat_n - (r as f64 + 0.3) * g.dlat;
            let lonm = g.lon_w + (c as f64 + 0.7) * g.dlon;
            for e in [-1e-9, 1e-9] {
                if c + 2 < cols {
                    q.push((lon_e + e, latm, "edge"));
                }
                if r + 2 < rows {
                    q.push((lonm, lat_s + e, "edge"));
                }
            }
        }
    }
    // margin: 0.25 and 0.49 cells outside each border; outside: 0.51 and 2 cells
    let (latc, lonc) = ((g.lat_n + g.lat_s) / 2. + 0.1 * g.dlat, (g.lon_w + g.lon_e) / 2. + 0.1 * g.dlon);
    let mut bands = vec![(0.25, "margin"), (0.49, "margin"), (0.51, "outside"), (2., "outside")];
    if thorough() {
        bands.extend([(0.05, "margin"), (0.4999, "margin"), (0.5001, "outside"), (0.75, "outside"), (10., "outside")]);
        // along every side, not only at its middle
        for (m, class) in bands.clone() {
            for f in [0.02, 0.31, 0.77, 0.98] {
                let (lat, lon) = (g.lat_s + f * (g.lat_n - g.lat_s), g.lon_w + f * (g.lon_e - g.lon_w));
                q.push((g.lon_w - m * g.dlon, lat, class));
                q.push((g.lon_e + m * g.dlon, lat, class));
                q.push((lon, g.lat_n + m * g.dlat, class));
                q.push((lon, g.lat_s - m * g.dlat, class));
            }
        }
    }
    for (m, class) in bands {
        q.push((g.lon_w - m * g.dlon, latc, class));
        q.push((g.lon_e + m * g.dlon, latc, class));
        q.push((lonc, g.lat_n + m * g.dlat, class));
        q.push((lonc, g.lat_s - m * g.dlat, class));
        q.push((g.lon_w - m * g.dlon, g.lat_s - m * g.dlat, class));
    }
    q
}

fn geometries() -> Vec<GeoDeg> {
    let mut v = Vec::new();
    let origins: Vec<(f64, f64)> = if thorough() { vec![(54., 8.), (-3.5, 179.), (-89., -180.), (0., 0.), (88., -1.)] } else { vec![(54., 8.), (-3.5, 179.)] };
    let spacings: Vec<(f64, f64)> = if thorough() { vec![(1., 1.), (0.25, 0.5), (1. / 3., 0.25), (0.1, 0.7), (2., 0.05)] } else { vec![(1., 1.), (0.25, 0.5), (1. / 3., 0.25)] };
    let shapes: Vec<(usize, usize)> = if thorough() { vec![(2, 2), (2, 5), (3, 3), (5, 2), (5, 5), (2, 9), (11, 3), (8, 8)] } else { vec![(2, 2), (2, 5), (3, 3), (5, 2), (5, 5)] };
    for &(lat0, lon0) in &origins {
        for &(dlat, dlon) in &spacings {
            for &(nr, nc) in &shapes {
                v.push(GeoDeg { lat_s: lat0, lat_n: lat0 + (nr - 1) as f64 * dlat, lon_w: lon0, lon_e: lon0 + (nc - 1) as f64 * dlon, dlat, dlon });
            }
        }
    }
    v
}

fn base_grid_checks(rep: &Report, outcomes: &Mutex<HashSet<u64>>) {
    let geos = geometries();
    let layouts = [TextLayout::RowPerLine, TextLayout::OneValuePerLine, TextLayout::WithComments, TextLayout::Crlf, TextLayout::TabsAndBlankLines, TextLayout::GluedComments];
    let jobs: Vec<(usize, usize)> = (0..geos.len()).flat_map(|g| (1..=3usize).map(move |b| (g, b))).collect();
    par_range(jobs.len(), |j| {
        let (gi, bands) = jobs[j];
        let g = &geos[gi];
        let seed = (gi * 7 + bands) as u32;
        let fv = move |r: usize, c: usize, b: usize| node_value(seed, r, c, b);
        let text = gravsoft_text(g, bands, &fv, layouts[j % layouts.len()]);
        let reference = gravsoft_reference(g, bands, &fv);
        let describe = || json!({"geometry": format!("{g:?}"), "bands": bands, "layout": format!("{:?}", layouts[j % layouts.len()])});
        let grid = match catch(|| BaseGrid::gravsoft(text.as_bytes())) {
            Ok(Ok(gr)) => gr,
            other => {
                rep.violation("well-formed generated Gravsoft grid is rejected or panics", json!({"grid": describe(), "result": format!("{other:?}").chars().take(200).collect::<String>(), "text": text.chars().take(400).collect::<String>()}));
                return;
            }
        };
        if grid.bands() != bands {
            rep.violation("decoded grid has the wrong number of bands", json!({"grid": describe(), "bands": grid.bands()}));
            return;
        }
        let scale = reference.values.iter().fold(0f64, |m, v| m.max(v.abs() as f64));
        let mut local = HashSet::new();
        for (lon, lat, class) in queries(g) {
            rep.eval(1);
            let c = Coor4D([lon.to_radians(), lat.to_radians(), 0., 0.]);
            let strict = catch(|| grid.at(&c, 0.0));
            let margin = catch(|| grid.at(&c, 0.5));
            let (Ok(strict), Ok(margin)) = (strict, margin) else {
                rep.violation("grid lookup panics", json!({"grid": describe(), "lon": lon, "lat": lat}));
                continue;
            };
            let inside = reference.contains(c[0], c[1], 0.0);
            let in_margin = reference.contains(c[0], c[1], 0.5);
            let want = reference.at(c[0], c[1]);
            let at = |what: &str, got: &Option<Coor4D>| json!({"grid": describe(), "lon_deg": lon, "lat_deg": lat, "class": class, "what": what, "observed": got.map(|g| g.0), "expected": want});
            // containment (points 1e-9 deg from the border are not judged for strict containment)
            let near_border = class == "edge" || ((lon - g.lon_w).abs() < 1e-8 || (lon - g.lon_e).abs() < 1e-8 || (lat - g.lat_n).abs() < 1e-8 || (lat - g.lat_s).abs() < 1e-8);
            if !near_border && strict.is_some() != inside {
                rep.violation(&format!("a point {class} the grid is {} by a lookup without margin", if inside { "not found" } else { "found" }), at("strict lookup", &strict));
            }
            if class != "edge" && margin.is_some() != in_margin && !(class == "inside" && near_border) {
                rep.violation(&format!("half-cell margin: a {class} point is {}", if in_margin { "not found" } else { "found" }), at("margin lookup", &margin));
            }
            for (name, got) in [("strict", &strict), ("margin", &margin)] {
                let Some(v) = got else { continue };
                // bilinear value (linear continuation in the margin)
                if (0..bands).any(|b| !rel_close(v[b], want[b], scale)) {
                    rep.violation(&format!("lookup is not the bilinear interpolation of the four surrounding nodes ({class}, {bands} band)"), at(name, got));
                    break;
                }
                // within the corner range inside a cell
                if class == "inside" {
                    for b in 0..bands {
                        let (lo, hi) = reference.corner_range(c[0], c[1], b);
                        if v[b] < lo - 1e-12 * scale || v[b] > hi + 1e-12 * scale {
                            rep.violation("interpolated value lies outside the range of the four corner values", at(name, got));
                        }
                    }
                }
                local.insert(hash_of(&bits4(v.0)));
            }
        }
        // node reproduction, exactly at the nodes computed the way the file defines them
        for r in 0..g.rows() {
            for cidx in 0..g.cols() {
                let lat = (g.lat_n - r as f64 * g.dlat).to_radians();
                let lon = (g.lon_w + cidx as f64 * g.dlon).to_radians();
                rep.eval(1);
                if let Ok(Some(v)) = catch(|| grid.at(&Coor4D([lon, lat, 0., 0.]), 0.5)) {
                    for b in 0..bands {
                        // (the node's longitude, built from decimal degrees, is rounded by about 1e-16 rad; divided by a
                        // small cell size that is up to 1e-12 cells, times the difference between neighbouring nodes)
                        if (v[b] - reference.node(r, cidx, b)).abs() > 1e-10 * scale {
                            rep.violation("node value is not reproduced at the node", json!({"grid": describe(), "row": r, "col": cidx, "band": b, "observed": v[b], "node": reference.node(r, cidx, b)}));
                        }
                    }
                } else {
                    rep.violation("node not found by lookup with margin", json!({"grid": describe(), "row": r, "col": cidx}));
                }
            }
        }
        outcomes.lock().unwrap().extend(local);
    });
    rep.set("base_grid_geometries", json!(geos.len()));
}

fn make_base(g: &GeoDeg, bands: usize, seed: u32) -> (Arc<dyn Grid>, RefGrid) {
    let fv = move |r: usize, c: usize, b: usize| node_value(seed, r, c, b);
    let text = gravsoft_text(g, bands, &fv, TextLayout::RowPerLine);
    (Arc::new(BaseGrid::gravsoft(text.as_bytes()).expect("generated grid")), gravsoft_reference(g, bands, &fv))
}

/// `deflection` on lists of FLAT geoids (5 m and 7 m): whichever grid is selected for a point, the slope of a
/// flat geoid is zero. A result other than zero (or NaN, not counted) means that the three look-ups behind one
/// deflection (the point, 1 m north, 1 m east) were served by different grids - or by the null grid
fn deflection_flat_lists(rep: &Report) {
    let g1 = GeoDeg { lat_s: 54., lat_n: 58., lon_w: 8., lon_e: 16., dlat: 1., dlon: 1. };
    let g2 = GeoDeg { lat_s: 56., lat_n: 60., lon_w: 12., lon_e: 20., dlat: 2., dlon: 2. };
    let flat = |g: &GeoDeg, h: f64| -> Arc<dyn Grid> { Arc::new(BaseGrid::gravsoft(gravsoft_text(g, 1, &move |_, _, _| h, TextLayout::RowPerLine).as_bytes()).expect("generated grid")) };
    let mut ctx = GridCtx::default();
    ctx.add_grid("five.geoid", flat(&g1, 5.));
    ctx.add_grid("seven.geoid", flat(&g2, 7.));
    // latitudes / longitudes: interior, every rim (grid edge and half-cell margin) and a few metres to either side of each rim
    let m = 1. / 111_000.; // roughly a metre, in degrees
    let offsets = [-3. * m, -0.7 * m, -0.3 * m, 0., 0.3 * m, 0.7 * m, 3. * m];
    let mut lats = vec![55.3, 57.1, 59.2];
    for r in [54., 58., 53.5, 58.5, 56., 60., 55., 61.] {
        lats.extend(offsets.iter().map(|o| r + o));
    }
    let mut lons = vec![9.4, 13.3, 18.8];
    for r in [8., 16., 7.5, 16.5, 12., 20., 11., 21.] {
        lons.extend(offsets.iter().map(|o| r + 2. * o));
    }
    for list in ["five.geoid", "five.geoid, seven.geoid", "seven.geoid, five.geoid", "five.geoid, @null", "seven.geoid, five.geoid, @null"] {
        let def = format!("deflection grids={list}");
        let Ok(op) = ctx.op(&def) else {
            rep.violation("grid operator with a list of generated grids cannot be instantiated", json!({"def": def}));
            continue;
        };
        for &lat in &lats {
            for &lon in &lons {
                rep.eval(1);
                let mut d = [Coor4D([lat, lon, 0., 0.])];
                let n = ctx.apply(op, Fwd, &mut d).unwrap_or(usize::MAX);
                let zero = d[0][0].abs() < 1e-3 && d[0][1].abs() < 1e-3; // arcsec
                let failed = n == 0 && d[0][0].is_nan() && d[0][1].is_nan();
                if !((n == 1 && zero) || failed) {
                    rep.violation(
                        "deflection on flat geoids is not zero: the three look-ups behind one deflection are not served by the same grid",
                        json!({"def": def, "lat_deg": lat, "lon_deg": lon, "count": n, "observed_arcsec": [d[0][0], d[0][1]]}),
                    );
                }
            }
        }
    }
}

/// `deflection` on two adjacent SLOPED geoids: the grid is selected by the point itself (first grid containing it,
/// then the first within the margin), also when the point is so close to that grid's rim that the auxiliary
/// points 1 m north / east of it fall into the margin
fn deflection_adjacent_lists(rep: &Report) {
    let g1 = GeoDeg { lat_s: 54., lat_n: 58., lon_w: 8., lon_e: 16., dlat: 1., dlon: 1. };
    let g2 = GeoDeg { lat_s: 50., lat_n: 54., lon_w: 8., lon_e: 16., dlat: 1., dlon: 1. };
    let (a, ra) = make_base(&g1, 1, 51);
    let (b, rb) = make_base(&g2, 1, 52);
    let mut ctx = GridCtx::default();
    ctx.add_grid("north.geoid", a);
    ctx.add_grid("south.geoid", b);
    let ell = crate::geo::ref_ellipsoid("GRS80").unwrap();
    let m = 1. / 111_000.;
    for (list, first_is_north) in [("north.geoid, south.geoid", true), ("south.geoid, north.geoid", false)] {
        let def = format!("deflection grids={list}");
        let Ok(op) = ctx.op(&def) else {
            rep.violation("grid operator with a list of generated grids cannot be instantiated", json!({"def": def}));
            continue;
        };
        // just south of the common border (inside the southern grid only), just north of it (northern grid only)
        for (lat, in_north) in [(54. - 0.1 * m, false), (54. - 0.7 * m, false), (54. - 30. * m, false), (54. + 0.4 * m, true), (54. + 25. * m, true), (51.3, false), (56.6, true)] {
            for lon in [9.3, 12.1, 15.95] {
                rep.eval(1);
                let _ = first_is_north;
                let r = if in_north { &ra } else { &rb };
                let (l, p) = (f64::to_radians(lon), f64::to_radians(lat));
                let dphi = 1. / ell.m(p);
                let dlam = 1. / (ell.n(p) * p.cos());
                let n0 = r.at(l, p)[0];
                let xi = (r.at(l, p + dphi)[0] - n0).atan().to_degrees() * 3600.;
                let eta = (r.at(l + dlam, p)[0] - n0).atan().to_degrees() * 3600.;
                let mut d = [Coor4D([lat, lon, 0., 0.])];
                let n = ctx.apply(op, Fwd, &mut d).unwrap_or(usize::MAX);
                if n != 1 || (d[0][0] - xi).abs() > 1e-2 * xi.abs().max(1.) || (d[0][1] - eta).abs() > 1e-2 * eta.abs().max(1.) {
                    rep.violation(
                        "deflection next to the common border of two grids is not the slope of the grid containing the point",
                        json!({"def": def, "lat_deg": lat, "lon_deg": lon, "containing_grid": if in_north { "north.geoid" } else { "south.geoid" }, "count": n, "observed_arcsec": [d[0][0], d[0][1]], "expected_arcsec": [xi, eta]}),
                    );
                }
            }
        }
    }
}

/// `gridshift` on a list mixing a datum shift grid and a geoid: either refused, or every point gets the kind of
/// correction (and the unit) of the grid that serves it - never a geoid height added to a longitude
fn mixed_kind_lists(rep: &Report) {
    let gd = GeoDeg { lat_s: 54., lat_n: 58., lon_w: 8., lon_e: 16., dlat: 1., dlon: 1. };
    let gg = GeoDeg { lat_s: 56., lat_n: 60., lon_w: 12., lon_e: 20., dlat: 2., dlon: 2. };
    let (datum, rdatum) = make_base(&gd, 2, 41);
    let (geoid, rgeoid) = make_base(&gg, 1, 42);
    let mut ctx = GridCtx::default();
    ctx.add_grid("d.datum", datum);
    ctx.add_grid("g.geoid", geoid);
    // a grid of a kind the operator has no use for: three bands of velocities as a datum shift (they would be added
    // to the position as radians), anything but a geoid for deflections
    let (velo, _) = make_base(&gd, 3, 43);
    ctx.add_grid("v.deformation", velo);
    for def in ["gridshift grids=v.deformation", "gridshift grids=d.datum, v.deformation", "deflection grids=d.datum", "deflection grids=v.deformation", "deflection grids=g.geoid, d.datum"] {
        rep.eval(1);
        if ctx.op(def).is_ok() {
            rep.violation("a grid operator accepts a grid of the wrong kind (number of bands)", json!({"def": def}));
        }
    }
    for list in ["d.datum, g.geoid", "g.geoid, d.datum"] {
        let def = format!("gridshift grids={list}");
        rep.eval(1);
        let Ok(op) = ctx.op(&def) else {
            continue; // refused: fine
        };
        // one point served by the datum grid only, one by the geoid only
        for (lon, lat, by_datum) in [(9.3f64, 55.2f64, true), (18.4, 59.1, false)] {
            let (l, p) = (lon.to_radians(), lat.to_radians());
            let mut d = [Coor4D([l, p, 100., 2000.])];
            let n = ctx.apply(op, Fwd, &mut d).unwrap_or(usize::MAX);
            let want = if by_datum {
                let w = rdatum.at(l, p);
                [l + w[0], p + w[1], 100.]
            } else {
                [l, p, 100. - rgeoid.at(l, p)[0]]
            };
            if n != 1 || (0..3).any(|k| (d[0][k] - want[k]).abs() > 1e-9) {
                rep.violation(
                    "gridshift on a list mixing datum and geoid grids applies the wrong kind of correction",
                    json!({"def": def, "lon_deg": lon, "lat_deg": lat, "served_by": if by_datum { "d.datum" } else { "g.geoid" }, "count": n, "observed": d[0].0, "expected": want}),
                );
            }
        }
    }
}

/// First hit among grids, for points ON the border of the first grid: the shipped NTv2 file 5458.gsb (54-58N, 8-16E)
/// followed by a second grid covering the same area with different values. A point on the closed border of the
/// first grid is inside it, so the list must give what the first grid alone gives
fn first_hit_on_ntv2_border(rep: &Report) {
    let wd = crate::util::enter_private_workdir();
    crate::catalog::install_grids(&wd);
    first_hit_on_ntv2_border_in_workdir(rep);
    Plain::clear_grids();
    crate::util::leave_private_workdir(&wd);
}

fn first_hit_on_ntv2_border_in_workdir(rep: &Report) {
    let mut ctx = Plain::new();
    let (Ok(single), Ok(list)) = (ctx.op("gridshift grids=5458.gsb"), ctx.op("gridshift grids=5458.gsb, test.datum")) else {
        rep.machinery_error("C08: the shipped grids 5458.gsb / test.datum cannot be used from the working directory".to_string());
        return;
    };
    let mut pts: Vec<(f64, f64)> = Vec::new();
    for k in 0..=8 {
        pts.push((8. + k as f64, 58.)); // northern edge
        pts.push((8. + k as f64, 54.)); // southern edge
        pts.push((8.5 + k as f64 * 0.9, 58.));
    }
    for k in 0..=4 {
        pts.push((16., 54. + k as f64)); // eastern edge
        pts.push((8., 54. + k as f64)); // western edge
        pts.push((16., 54.3 + k as f64 * 0.8));
    }
    pts.push((12., 56.)); // interior, for control
    for (lon, lat) in pts {
        rep.eval(1);
        let mut a = [Coor4D::geo(lat, lon, 0., 0.)];
        let mut b = a;
        let (na, nb) = (ctx.apply(single, Fwd, &mut a).unwrap_or(usize::MAX), ctx.apply(list, Fwd, &mut b).unwrap_or(usize::MAX));
        if na != 1 || nb != 1 || (a[0][0] - b[0][0]).abs() > 1e-12 || (a[0][1] - b[0][1]).abs() > 1e-12 {
            rep.violation(
                "a point on the border of the first grid of a list is served by a later grid",
                json!({"list": "gridshift grids=5458.gsb, test.datum", "lat_deg": lat, "lon_deg": lon, "first_grid_alone": a[0].0, "list_gives": b[0].0, "counts": [na, nb]}),
            );
        }
    }
}

/// lists of up to 3 overlapping grids in all orders, with the null grid
fn grid_lists(rep: &Report) {
    let ga = GeoDeg { lat_s: 54., lat_n: 58., lon_w: 8., lon_e: 16., dlat: 1., dlon: 1. };
    let gb = GeoDeg { lat_s: 55., lat_n: 57., lon_w: 10., lon_e: 13., dlat: 0.5, dlon: 0.5 };
    let gc = GeoDeg { lat_s: 56., lat_n: 60., lon_w: 12., lon_e: 20., dlat: 2., dlon: 2. };
    let grids: Vec<(Arc<dyn Grid>, RefGrid)> = vec![make_base(&ga, 2, 11), make_base(&gb, 2, 22), make_base(&gc, 2, 33)];
    let mut points = Vec::new();
    let mut la = 53.;
    while la <= 61.5 {
        let mut lo = 7.;
        while lo <= 21.5 {
            points.push((lo, la));
            lo += 0.3;
        }
        la += 0.35;
    }
    let subsets: Vec<Vec<usize>> = (1..8usize).map(|m| (0..3).filter(|i| m & (1 << i) != 0).collect()).collect();
    for subset in subsets {
        // all orders of the subset
        let mut perms: Vec<Vec<usize>> = vec![vec![]];
        for _ in 0..subset.len() {
            perms = perms.into_iter().flat_map(|p| subset.iter().filter(|i| !p.contains(i)).map(|i| { let mut q = p.clone(); q.push(*i); q }).collect::<Vec<_>>()).collect();
        }
        for order in perms {
            let list: Vec<Arc<dyn Grid>> = order.iter().map(|&i| grids[i].0.clone()).collect();
            for null in [false, true] {
                for &(lon, lat) in &points {
                    rep.eval(1);
                    let c = Coor4D([f64::to_radians(lon), f64::to_radians(lat), 0., 0.]);
                    let got = catch(|| grids_at(&list, &c, null));
                    // reference: first grid containing the point; then first grid within the half-cell margin; then null
                    let mut want: Option<Vec<f64>> = None;
                    for margin in [0.0, 0.5] {
                        if want.is_some() {
                            break;
                        }
                        for &i in &order {
                            if grids[i].1.contains(c[0], c[1], margin) {
                                want = Some(grids[i].1.at(c[0], c[1]));
                                break;
                            }
                        }
                    }
                    if want.is_none() && null {
                        want = Some(vec![0., 0.]);
                    }
                    // skip points within 1e-9 of any border (containment there is rounding dependent)
                    let near = order.iter().any(|&i| {
                        let g = &grids[i].1;
                        [g.lat_n, g.lat_s, g.lat_n + 0.5 * g.dlat, g.lat_s - 0.5 * g.dlat].iter().any(|b| (c[1] - b).abs() < 1e-10)
                            || [g.lon_w, g.lon_e, g.lon_w - 0.5 * g.dlon, g.lon_e + 0.5 * g.dlon].iter().any(|b| (c[0] - b).abs() < 1e-10)
                    });
                    if near {
                        continue;
                    }
                    let ok = match (&got, &want) {
                        (Ok(None), None) => true,
                        (Ok(Some(g)), Some(w)) => rel_close(g[0], w[0], 1e-3) && rel_close(g[1], w[1], 1e-3),
                        _ => false,
                    };
                    if !ok {
                        rep.violation(
                            &format!("grid list: not the first containing grid (then the first within the margin{}) / {} grids", if null { ", then the null grid" } else { "" }, order.len()),
                            json!({"order": order, "null_grid": null, "lon_deg": lon, "lat_deg": lat, "observed": format!("{got:?}"), "expected": want}),
                        );
                    }
                }
            }
        }
    }
}

/// NTv2 trees of up to 3 sub-grids in all shapes and file orders, both byte orders
fn ntv2_trees(rep: &Report, outcomes: &Mutex<HashSet<u64>>) {
    let root = SubGrid { name: "ROOT".into(), parent: "NONE".into(), lat_s: 54., lat_n: 58., lon_w: 8., lon_e: 16., dlat: 1., dlon: 1., seed: 101 };
    let child = SubGrid { name: "CHILD".into(), parent: "ROOT".into(), lat_s: 55., lat_n: 57., lon_w: 10., lon_e: 14., dlat: 0.5, dlon: 0.5, seed: 202 };
    let grand = SubGrid { name: "GRAND".into(), parent: "CHILD".into(), lat_s: 55.5, lat_n: 56.5, lon_w: 11., lon_e: 13., dlat: 0.25, dlon: 0.25, seed: 303 };
    let sibling = SubGrid { name: "SIBL".into(), parent: "ROOT".into(), lat_s: 54., lat_n: 55., lon_w: 14., lon_e: 16., dlat: 0.5, dlon: 0.5, seed: 404 };
    let root2 = SubGrid { name: "ROOT2".into(), parent: "NONE".into(), lat_s: 59., lat_n: 61., lon_w: 8., lon_e: 12., dlat: 1., dlon: 1., seed: 505 };
    let shapes: Vec<(&str, Vec<SubGrid>)> = vec![
        ("single root", vec![root.clone()]),
        ("root + child", vec![root.clone(), child.clone()]),
        ("root + child + grandchild", vec![root.clone(), child.clone(), grand.clone()]),
        ("root + two children", vec![root.clone(), child.clone(), sibling.clone()]),
        ("two roots", vec![root.clone(), root2.clone()]),
        ("two roots + child", vec![root.clone(), root2.clone(), child.clone()]),
        // bounds and steps that are not exactly representable: (north - south) / step is 2.9999999999999996 here,
        // as any producer writing decimal bounds will create
        ("single root, decimal bounds", vec![SubGrid { name: "FRAC".into(), parent: "NONE".into(), lat_s: 54.3, lat_n: 54.3 + 3. * 0.1, lon_w: 8.3, lon_e: 8.3 + 6. * 0.2, dlat: 0.1, dlon: 0.2, seed: 606 }]),
        ("root + child, decimal bounds", vec![
            SubGrid { name: "FRAC".into(), parent: "NONE".into(), lat_s: 54.3, lat_n: 54.3 + 4. * 0.3, lon_w: 8.3, lon_e: 8.3 + 5. * 0.3, dlat: 0.3, dlon: 0.3, seed: 707 },
            SubGrid { name: "FRACC".into(), parent: "FRAC".into(), lat_s: 54.6, lat_n: 54.6 + 6. * 0.05, lon_w: 8.6, lon_e: 8.6 + 3. * 0.1, dlat: 0.05, dlon: 0.1, seed: 808 },
        ]),
    ];
    for (label, subs) in &shapes {
        // all file orders
        let n = subs.len();
        let mut perms: Vec<Vec<usize>> = vec![vec![]];
        for _ in 0..n {
            perms = perms.into_iter().flat_map(|p| (0..n).filter(|i| !p.contains(i)).map(|i| { let mut q = p.clone(); q.push(i); q }).collect::<Vec<_>>()).collect();
        }
        for order in perms {
            for be in [false, true] {
                let file: Vec<SubGrid> = order.iter().map(|&i| subs[i].clone()).collect();
                let bytes = ntv2_bytes(&file, be);
                let describe = || json!({"shape": label, "file_order": order.iter().map(|&i| subs[i].name.clone()).collect::<Vec<_>>(), "big_endian": be});
                let grid = match catch(|| Ntv2Grid::new(&bytes)) {
                    Ok(Ok(g)) => g,
                    other => {
                        rep.violation(&format!("well-formed generated NTv2 file is rejected or panics / {}", if be { "big endian" } else { "little endian" }), json!({"file": describe(), "result": format!("{other:?}").chars().take(200).collect::<String>()}));
                        continue;
                    }
                };
                let refs: Vec<RefGrid> = subs.iter().map(|s| s.reference()).collect();
                // depth of each sub-grid
                let depth = |i: usize| -> usize {
                    let mut d = 0;
                    let mut p = subs[i].parent.clone();
                    while p != "NONE" {
                        d += 1;
                        p = subs.iter().find(|s| s.name == p).map(|s| s.parent.clone()).unwrap_or("NONE".into());
                    }
                    d
                };
                let mut la = 53.1;
                while la < 62. {
                    let mut lo = 7.1;
                    while lo < 17. {
                        rep.eval(1);
                        let c = Coor4D([f64::to_radians(lo), f64::to_radians(la), 0., 0.]);
                        // reference: the deepest sub-grid containing the point (upper boundaries excluded is a
                        // border matter; the lattice stays 0.1 deg clear of every border)
                        let mut best: Option<usize> = None;
                        for i in 0..n {
                            if refs[i].contains(c[0], c[1], 0.0) && best.map(|b| depth(i) > depth(b)).unwrap_or(true) {
                                best = Some(i);
                            }
                        }
                        let got = catch(|| grid.at(&c, 0.0));
                        let want = best.map(|i| refs[i].at(c[0], c[1]));
                        let ok = match (&got, &want) {
                            (Ok(None), None) => true,
                            (Ok(Some(g)), Some(w)) => rel_close(g[0], w[0], 1e-4) && rel_close(g[1], w[1], 1e-4),
                            _ => false,
                        };
                        if !ok {
                            rep.violation(
                                &format!("NTv2: lookup is not the bilinear value of the deepest sub-grid containing the point / {label}"),
                                json!({"file": describe(), "lon_deg": lo, "lat_deg": la, "observed": format!("{got:?}"), "expected": want, "expected_subgrid": best.map(|i| subs[i].name.clone())}),
                            );
                        } else if let Ok(Some(g)) = got {
                            outcomes.lock().unwrap().insert(hash_of(&bits4(g.0)));
                        }
                        lo += 0.37;
                    }
                    la += 0.29;
                }
                // next to the borders of every sub-grid (mid-edge points): a hair outside an edge the point belongs to
                // the enclosing grid (either side's value is accepted within 1e-9 rad of the edge, but the point must
                // not be FAILED when some grid contains it); 2e-7 rad (about a metre) inside an edge it belongs to this grid
                for (i, r) in refs.iter().enumerate() {
                    let (mlat, mlon) = (0.5 * (r.lat_s + r.lat_n), 0.5 * (r.lon_w + r.lon_e));
                    for (edge, lon, lat, dlon, dlat) in [
                        ("south", mlon, r.lat_s, 0., 1.),
                        ("north", mlon, r.lat_n, 0., -1.),
                        ("west", r.lon_w, mlat, 1., 0.),
                        ("east", r.lon_e, mlat, -1., 0.),
                    ] {
                        for (eps, strict) in [(-1e-10, false), (1e-10, false), (2e-7, true), (-2e-7, true)] {
                            // eps > 0: inside this sub-grid; eps < 0: outside it
                            let c = Coor4D([lon + dlon * eps, lat + dlat * eps, 0., 0.]);
                            rep.eval(1);
                            let containing: Vec<usize> = (0..n).filter(|&k| refs[k].contains(c[0], c[1], 0.0)).collect();
                            let deepest = containing.iter().copied().max_by_key(|&k| depth(k));
                            let got = catch(|| grid.at(&c, 0.0));
                            let close = |g: &Coor4D, k: usize| {
                                let w = refs[k].at(c[0], c[1]);
                                rel_close(g[0], w[0], 1e-4) && rel_close(g[1], w[1], 1e-4)
                            };
                            let ok = match (&got, deepest) {
                                (Ok(None), None) => true,
                                (Ok(Some(g)), Some(d)) => {
                                    if strict {
                                        close(g, d)
                                    } else {
                                        // within rounding of the edge: this sub-grid's value or the enclosing one's
                                        close(g, d) || close(g, i) || containing.iter().any(|&k| close(g, k))
                                    }
                                }
                                // (a hair outside every grid: the value of any grid whose border is within rounding of the point)
                                (Ok(Some(g)), None) => !strict && (close(g, i) || (0..n).any(|k| refs[k].contains(c[0], c[1], 1e-5) && close(g, k))),
                                _ => false,
                            };
                            if !ok {
                                rep.violation(
                                    &format!("NTv2: a point next to a sub-grid border is failed although a grid contains it, or not looked up in the deepest containing sub-grid / {} edge, {}", edge, if strict { "a metre away" } else { "within rounding" }),
                                    json!({"file": describe(), "subgrid": subs[i].name, "edge": edge, "offset_rad": eps, "lon_rad": c[0], "lat_rad": c[1], "observed": format!("{got:?}"),
                                           "containing": containing.iter().map(|&k| subs[k].name.clone()).collect::<Vec<_>>(), "expected_subgrid": deepest.map(|k| subs[k].name.clone())}),
                                );
                            }
                        }
                    }
                }
            }
        }
    }
}

/// operators: documented band order, sign and unit conventions
fn operator_conventions(rep: &Report) {
    let g = GeoDeg { lat_s: 54., lat_n: 58., lon_w: 8., lon_e: 16., dlat: 1., dlon: 1. };
    let mut ctx = GridCtx::default();
    let (datum, rdatum) = make_base(&g, 2, 7);
    let (geoid, rgeoid) = make_base(&g, 1, 8);
    let (defo, rdefo) = make_base(&g, 3, 9);
    ctx.add_grid("d.datum", datum);
    ctx.add_grid("g.geoid", geoid);
    ctx.add_grid("v.deformation", defo);
    let pts: Vec<(f64, f64)> = vec![(12.3, 55.7), (8.5, 54.25), (15.9, 57.9), (10., 56.), (13.37, 56.66)];
    let ops: Vec<(&str, Result<OpHandle, Error>)> = ["gridshift grids=d.datum", "gridshift grids=g.geoid", "deformation grids=v.deformation dt=1 raw", "deformation grids=v.deformation t_epoch=2000 raw", "deformation grids=v.deformation dt=1", "deformation grids=v.deformation t_epoch=2000", "deflection grids=g.geoid"]
        .iter()
        .map(|d| (*d, ctx.op(d)))
        .collect();
    for (def, op) in &ops {
        let Ok(op) = op else {
            rep.violation("grid operator cannot be instantiated on a generated grid", json!({"def": def}));
            continue;
        };
        for &(lon, lat) in &pts {
            rep.eval(1);
            let (l, p) = (f64::to_radians(lon), f64::to_radians(lat));
            if def.starts_with("gridshift grids=d") {
                // datum shift forward: corrections (lon, lat in radians from arcsec) are ADDED
                let w = rdatum.at(l, p);
                let mut d = [Coor4D([l, p, 10., 2000.])];
                let n = ctx.apply(*op, Fwd, &mut d).unwrap_or(0);
                if n != 1 || (d[0][0] - (l + w[0])).abs() > 1e-14 || (d[0][1] - (p + w[1])).abs() > 1e-14 || d[0][2] != 10. {
                    rep.violation("gridshift forward does not add the datum shift (arcsec converted to radians, lon/lat order)", json!({"def": def, "lon_deg": lon, "lat_deg": lat, "observed": d[0].0, "expected": [l + w[0], p + w[1], 10.]}));
                }
                let n = ctx.apply(*op, Inv, &mut d).unwrap_or(0);
                if n != 1 || (d[0][0] - l).abs() > 1e-11 || (d[0][1] - p).abs() > 1e-11 {
                    rep.violation("gridshift inverse does not undo the datum shift", json!({"def": def, "lon_deg": lon, "lat_deg": lat, "observed": d[0].0}));
                }
            } else if def.starts_with("gridshift grids=g") {
                // geoid: heights are SUBTRACTED forward
                let w = rgeoid.at(l, p);
                let mut d = [Coor4D([l, p, 100., 2000.])];
                let n = ctx.apply(*op, Fwd, &mut d).unwrap_or(0);
                if n != 1 || (d[0][2] - (100. - w[0])).abs() > 1e-10 || bits(d[0][0]) != bits(l) || bits(d[0][1]) != bits(p) {
                    rep.violation("gridshift forward does not subtract the geoid height", json!({"def": def, "lon_deg": lon, "lat_deg": lat, "observed": d[0].0, "expected_h": 100. - w[0]}));
                }
                let n = ctx.apply(*op, Inv, &mut d).unwrap_or(0);
                if n != 1 || (d[0][2] - 100.).abs() > 1e-10 {
                    rep.violation("gridshift inverse does not add the geoid height back", json!({"def": def, "observed": d[0].0}));
                }
            } else if def.starts_with("deformation") {
                // raw: the deformation vector itself. The velocity (east, north, up in m/yr from mm/yr) times dt,
                // rotated from ENU to XYZ; its length is |v| * |dt|
                let ell = crate::geo::ref_ellipsoid("GRS80").unwrap();
                let xyz = ell.geo_to_cart(l, p, 0.);
                let v = rdefo.at(l, p);
                let t = 2010.;
                let dt = if def.contains("dt=1") { 1. } else { t - 2000. };
                let mut d = [Coor4D([xyz[0], xyz[1], xyz[2], t])];
                let n = ctx.apply(*op, Fwd, &mut d).unwrap_or(0);
                let len_want = (v[0] * v[0] + v[1] * v[1] + v[2] * v[2]).sqrt() * f64::abs(dt);
                let len_got = (d[0][0].powi(2) + d[0][1].powi(2) + d[0][2].powi(2)).sqrt();
                // ENU -> XYZ
                let (sl, cl, sp, cp) = (l.sin(), l.cos(), p.sin(), p.cos());
                let want = [
                    dt * (-sl * v[0] - sp * cl * v[1] + cp * cl * v[2]),
                    dt * (cl * v[0] - sp * sl * v[1] + cp * sl * v[2]),
                    dt * (cp * v[1] + sp * v[2]),
                ];
                if !def.contains("raw") {
                    // the documented transformation (eq. 3 of the operator's documentation): forward REMOVES the deformation
                    // accumulated from the frame epoch T0 to the observation epoch T1, X' = X - (T1 - T0) * V, inverse adds it back.
                    // A fixed dt stands for T1 - T0
                    let form = if def.contains("dt=1") { "fixed dt" } else { "t_epoch and the observation epoch" };
                    let fwd_ok = n == 1 && (0..3).all(|k| (d[0][k] - (xyz[k] - want[k])).abs() <= 1e-6 * len_want.max(1e-9)) && d[0][3] == t;
                    if !fwd_ok {
                        rep.violation(
                            &format!("deformation forward does not subtract (T1 - T0) x velocity as documented / time span from {form}"),
                            json!({"def": def, "lon_deg": lon, "lat_deg": lat, "input": [xyz[0], xyz[1], xyz[2], t], "observed": d[0].0, "expected": [xyz[0] - want[0], xyz[1] - want[1], xyz[2] - want[2], t]}),
                        );
                    }
                    let n = ctx.apply(*op, Inv, &mut d).unwrap_or(0);
                    if n != 1 || (0..3).any(|k| (d[0][k] - xyz[k]).abs() > 1e-3 * len_want.max(1e-9) + 1e-9) {
                        // (the inverse looks the velocity up at the shifted position without iterating: it is exact only to
                        // first order in the deformation, which is all the sign convention needs)
                        rep.violation("deformation inverse does not add the deformation back", json!({"def": def, "lon_deg": lon, "lat_deg": lat, "observed": d[0].0, "expected": xyz}));
                    }
                    continue;
                }
                let vec_ok = (0..3).all(|k| (d[0][k].abs() - want[k].abs()).abs() <= 1e-6 * len_want.max(1e-9));
                if n != 1 || (len_got - len_want).abs() > 1e-6 * len_want.max(1e-9) || !vec_ok {
                    rep.violation(
                        "deformation (raw): not the interpolated velocity (mm/yr to m/yr, east/north/up) times the time span, rotated to XYZ",
                        json!({"def": def, "lon_deg": lon, "lat_deg": lat, "observed": d[0].0, "expected_up_to_sign": want, "expected_length": len_want}),
                    );
                }
            } else {
                // deflection: (lat, lon) degrees in, (xi, eta) arcsec out: slopes of the geoid over 1 m north / east
                let mut d = [Coor4D([lat, lon, 0., 0.])];
                let n = ctx.apply(*op, Fwd, &mut d).unwrap_or(0);
                let ell = crate::geo::ref_ellipsoid("GRS80").unwrap();
                let dphi = 1. / ell.m(p);
                let dlam = 1. / (ell.n(p) * p.cos());
                let n0 = rgeoid.at(l, p)[0];
                let xi = (rgeoid.at(l, p + dphi)[0] - n0).atan().to_degrees() * 3600.;
                let eta = (rgeoid.at(l + dlam, p)[0] - n0).atan().to_degrees() * 3600.;
                if n != 1 || (d[0][0] - xi).abs() > 1e-3 * xi.abs().max(1.) || (d[0][1] - eta).abs() > 1e-3 * eta.abs().max(1.) {
                    rep.violation("deflection is not the slope of the geoid over 1 m north/east in arcsec, in (xi, eta) order", json!({"def": def, "lat_deg": lat, "lon_deg": lon, "observed": d[0].0, "expected": [xi, eta]}));
                }
            }
        }
    }
    // outside everything: failed unless the null grid is given
    for (def, null) in [
        ("gridshift grids=d.datum", false),
        ("gridshift grids=d.datum, @null", true),
        ("gridshift grids=@nothere.datum, d.datum", false),
        // every listed grid optional and missing: the point is outside all (zero) grids
        ("gridshift grids=@nothere.datum", false),
        ("gridshift grids=@nothere.datum, @alsomissing.datum", false),
        ("gridshift grids=@nothere.datum, @null", true),
        ("gridshift grids=@null", true),
        ("deformation grids=@nothere.deformation dt=1", false),
        // the null grid for the deformation operator (which parses its grid list itself)
        ("deformation grids=v.deformation, @null dt=1", true),
        ("deformation grids=@null dt=1", true),
        ("deformation grids=@nothere.deformation, @null t_epoch=2000", true),
        // deflection: the null grid is a geoid that is zero everywhere, hence no deflection (the result is (0, 0),
        // or the input unchanged: either is accepted as "passed", NaN and not counted is not)
        ("deflection grids=g.geoid, @null", true),
        ("deflection grids=@null", true),
        ("deflection grids=g.geoid", false),
        ("deflection grids=@nothere.geoid", false),
    ] {
        rep.eval(1);
        let Ok(op) = ctx.op(def) else {
            rep.violation("grid list with optional/null entries rejected", json!({"def": def}));
            continue;
        };
        let t = [0.1, 0.2, 3., 4.];
        let mut d = [Coor4D(t)];
        let n = ctx.apply(op, Fwd, &mut d).unwrap_or(9);
        let unchanged = bits4(d[0].0) == bits4(t);
        let zero_deflection = def.starts_with("deflection") && d[0][0] == 0. && d[0][1] == 0.;
        let ok = if null { n == 1 && (unchanged || zero_deflection) } else { n == 0 && d[0][0].is_nan() && d[0][1].is_nan() };
        if !ok {
            rep.violation(&format!("a point outside all grids is not {}", if null { "passed unchanged by the null grid" } else { "failed" }), json!({"def": def, "count": n, "observed": format!("{:?}", d[0].0)}));
        }
    }
    // a missing non-optional grid is an error; a missing optional one is skipped
    rep.eval(2);
    if ctx.op("gridshift grids=nothere.datum").is_ok() {
        rep.violation("a missing non-optional grid is accepted", json!({"def": "gridshift grids=nothere.datum"}));
    }
}

/// The same grid lists through the gridshift OPERATOR, the whole point lattice applied as ONE set (in two
/// orders): every tuple must get the correction of the first grid containing it (then the first within the
/// margin, then the null grid), whatever grid served its neighbours in the set
fn operator_grid_lists(rep: &Report) {
    let ga = GeoDeg { lat_s: 54., lat_n: 58., lon_w: 8., lon_e: 16., dlat: 1., dlon: 1. };
    let gb = GeoDeg { lat_s: 55., lat_n: 57., lon_w: 10., lon_e: 13., dlat: 0.5, dlon: 0.5 };
    let gc = GeoDeg { lat_s: 56., lat_n: 60., lon_w: 12., lon_e: 20., dlat: 2., dlon: 2. };
    let grids: Vec<(Arc<dyn Grid>, RefGrid)> = vec![make_base(&ga, 2, 11), make_base(&gb, 2, 22), make_base(&gc, 2, 33)];
    let names = ["a.datum", "b.datum", "c.datum"];
    let mut ctx = GridCtx::default();
    for (n, g) in names.iter().zip(grids.iter()) {
        ctx.add_grid(n, g.0.clone());
    }
    let mut points: Vec<(f64, f64)> = Vec::new();
    let mut la = 53.;
    while la <= 61.5 {
        let mut lo = 7.;
        while lo <= 21.5 {
            let (l, p) = (f64::to_radians(lo), f64::to_radians(la));
            let near = grids.iter().any(|(_, g)| {
                [g.lat_n, g.lat_s, g.lat_n + 0.5 * g.dlat, g.lat_s - 0.5 * g.dlat].iter().any(|b| (p - b).abs() < 1e-10) || [g.lon_w, g.lon_e, g.lon_w - 0.5 * g.dlon, g.lon_e + 0.5 * g.dlon].iter().any(|b| (l - b).abs() < 1e-10)
            });
            if !near {
                points.push((l, p));
            }
            lo += 0.3;
        }
        la += 0.35;
    }
    let subsets: Vec<Vec<usize>> = (1..8usize).map(|m| (0..3).filter(|i| m & (1 << i) != 0).collect()).collect();
    for subset in subsets {
        let mut perms: Vec<Vec<usize>> = vec![vec![]];
        for _ in 0..subset.len() {
            perms = perms.into_iter().flat_map(|p| subset.iter().filter(|i| !p.contains(i)).map(|i| { let mut q = p.clone(); q.push(*i); q }).collect::<Vec<_>>()).collect();
        }
        for order in perms {
            for null in [false, true] {
                let mut list: Vec<&str> = order.iter().map(|&i| names[i]).collect();
                if null {
                    list.push("@null");
                }
                let def = format!("gridshift grids={}", list.join(", "));
                let Ok(op) = ctx.op(&def) else {
                    rep.violation("grid operator with a list of generated grids cannot be instantiated", json!({"def": def}));
                    continue;
                };
                for reversed in [false, true] {
                    let pts: Vec<(f64, f64)> = if reversed { points.iter().rev().cloned().collect() } else { points.clone() };
                    let mut data: Vec<Coor4D> = pts.iter().map(|&(l, p)| Coor4D([l, p, 7., 2000.])).collect();
                    let n = match catch(|| ctx.apply(op, Fwd, &mut data)) {
                        Ok(Ok(n)) => n,
                        other => {
                            rep.violation("grid operator with a list of grids panics or errs", json!({"def": def, "result": format!("{other:?}")}));
                            continue;
                        }
                    };
                    rep.eval(pts.len() as u64);
                    let mut expected_count = 0;
                    for (k, &(l, p)) in pts.iter().enumerate() {
                        let mut want: Option<Vec<f64>> = None;
                        for margin in [0.0, 0.5] {
                            if want.is_some() {
                                break;
                            }
                            for &i in &order {
                                if grids[i].1.contains(l, p, margin) {
                                    want = Some(grids[i].1.at(l, p));
                                    break;
                                }
                            }
                        }
                        if want.is_none() && null {
                            want = Some(vec![0., 0.]);
                        }
                        let got = data[k].0;
                        let ok = match &want {
                            Some(w) => {
                                expected_count += 1;
                                (got[0] - (l + w[0])).abs() <= 1e-13 && (got[1] - (p + w[1])).abs() <= 1e-13 && got[2] == 7. && got[3] == 2000.
                            }
                            None => got[0].is_nan() && got[1].is_nan(),
                        };
                        if !ok {
                            rep.violation(
                                &format!("gridshift over a grid list, set applied in one call: a tuple does not get the correction of the first containing grid (then margin{}) / {} grids", if null { ", then null" } else { "" }, order.len()),
                                json!({"def": def, "set_order": if reversed {"reversed"} else {"lattice order"}, "index_in_set": k, "lon_deg": l.to_degrees(), "lat_deg": p.to_degrees(), "observed": got,
                                       "expected": want.map(|w| vec![l + w[0], p + w[1]])}),
                            );
                            break;
                        }
                    }
                    if n != expected_count {
                        rep.violation(&format!("gridshift over a grid list: count is not the number of tuples covered / {} grids", order.len()), json!({"def": def, "count": n, "expected": expected_count}));
                    }
                }
            }
        }
    }
}

/// The deformation operator has its own grid selection loop: the same grid lists through
/// `deformation raw dt=1` on three-band grids, whole lattice as one set
fn deformation_grid_lists(rep: &Report) {
    let ga = GeoDeg { lat_s: 54., lat_n: 58., lon_w: 8., lon_e: 16., dlat: 1., dlon: 1. };
    let gb = GeoDeg { lat_s: 55., lat_n: 57., lon_w: 10., lon_e: 13., dlat: 0.5, dlon: 0.5 };
    let gc = GeoDeg { lat_s: 56., lat_n: 60., lon_w: 12., lon_e: 20., dlat: 2., dlon: 2. };
    let grids: Vec<(Arc<dyn Grid>, RefGrid)> = vec![make_base(&ga, 3, 41), make_base(&gb, 3, 52), make_base(&gc, 3, 63)];
    let names = ["a.deformation", "b.deformation", "c.deformation"];
    let mut ctx = GridCtx::default();
    for (n, g) in names.iter().zip(grids.iter()) {
        ctx.add_grid(n, g.0.clone());
    }
    let ell = crate::geo::ref_ellipsoid("GRS80").unwrap();
    let mut points: Vec<(f64, f64)> = Vec::new();
    let mut la = 53.;
    while la <= 61.5 {
        let mut lo = 7.;
        while lo <= 21.5 {
            let (l, p) = (f64::to_radians(lo), f64::to_radians(la));
            // keep clear of borders and margin limits by 1e-6 rad: the operator recovers (lon, lat) from cartesian coordinates
            let near = grids.iter().any(|(_, g)| {
                [g.lat_n, g.lat_s, g.lat_n + 0.5 * g.dlat, g.lat_s - 0.5 * g.dlat].iter().any(|b| (p - b).abs() < 1e-6) || [g.lon_w, g.lon_e, g.lon_w - 0.5 * g.dlon, g.lon_e + 0.5 * g.dlon].iter().any(|b| (l - b).abs() < 1e-6)
            });
            if !near {
                points.push((l, p));
            }
            lo += 0.3;
        }
        la += 0.35;
    }
    let subsets: Vec<Vec<usize>> = (1..8usize).map(|m| (0..3).filter(|i| m & (1 << i) != 0).collect()).collect();
    for subset in subsets {
        let mut perms: Vec<Vec<usize>> = vec![vec![]];
        for _ in 0..subset.len() {
            perms = perms.into_iter().flat_map(|p| subset.iter().filter(|i| !p.contains(i)).map(|i| { let mut q = p.clone(); q.push(*i); q }).collect::<Vec<_>>()).collect();
        }
        for order in perms {
            let list: Vec<&str> = order.iter().map(|&i| names[i]).collect();
            let def = format!("deformation raw dt=1 grids={}", list.join(", "));
            let Ok(op) = ctx.op(&def) else {
                rep.violation("deformation with a list of generated grids cannot be instantiated", json!({"def": def}));
                continue;
            };
            let mut data: Vec<Coor4D> = points.iter().map(|&(l, p)| { let c = ell.geo_to_cart(l, p, 0.); Coor4D([c[0], c[1], c[2], 2010.]) }).collect();
            let n = match catch(|| ctx.apply(op, Fwd, &mut data)) {
                Ok(Ok(n)) => n,
                other => {
                    rep.violation("deformation with a list of grids panics or errs", json!({"def": def, "result": format!("{other:?}")}));
                    continue;
                }
            };
            rep.eval(points.len() as u64);
            let mut expected_count = 0;
            for (k, &(l, p)) in points.iter().enumerate() {
                let mut want: Option<Vec<f64>> = None;
                for margin in [0.0, 0.5] {
                    if want.is_some() {
                        break;
                    }
                    for &i in &order {
                        if grids[i].1.contains(l, p, margin) {
                            want = Some(grids[i].1.at(l, p));
                            break;
                        }
                    }
                }
                let got = data[k].0;
                let ok = match &want {
                    Some(v) => {
                        expected_count += 1;
                        let (sl, cl, sp, cp) = (l.sin(), l.cos(), p.sin(), p.cos());
                        let w = [-sl * v[0] - sp * cl * v[1] + cp * cl * v[2], cl * v[0] - sp * sl * v[1] + cp * sl * v[2], cp * v[1] + sp * v[2]];
                        let len = (w[0] * w[0] + w[1] * w[1] + w[2] * w[2]).sqrt().max(1e-9);
                        (0..3).all(|j| (got[j].abs() - w[j].abs()).abs() <= 1e-6 * len)
                    }
                    None => got[0].is_nan() && got[1].is_nan() && got[2].is_nan(),
                };
                if !ok {
                    rep.violation(
                        &format!("deformation over a grid list: a tuple does not get the velocity of the first containing grid (then the first within the margin) / {} grids", order.len()),
                        json!({"def": def, "index_in_set": k, "lon_deg": l.to_degrees(), "lat_deg": p.to_degrees(), "observed": got, "expected_enu_velocity": want}),
                    );
                    break;
                }
            }
            if n != expected_count {
                rep.violation(&format!("deformation over a grid list: count is not the number of tuples covered / {} grids", order.len()), json!({"def": def, "count": n, "expected": expected_count}));
            }
        }
    }
}

/// Gravsoft grids in projected coordinates (any boundary beyond +-720 means "not degrees"): geometry and node
/// values are used exactly as written — also when ONE of the boundaries happens to lie within +-720
/// (a grid starting at northing 0, at easting 0, or straddling an axis)
pub fn projected_grids(rep: &Report) {
    let geometries = [
        ("starting at northing 0", GeoDeg { lat_s: 0., lat_n: 4000., lon_w: 500000., lon_e: 503000., dlat: 1000., dlon: 1000. }),
        ("starting at easting 0", GeoDeg { lat_s: 6100000., lat_n: 6104000., lon_w: 0., lon_e: 3000., dlat: 1000., dlon: 1000. }),
        ("straddling the equator", GeoDeg { lat_s: -2000., lat_n: 2000., lon_w: 499000., lon_e: 502000., dlat: 1000., dlon: 500. }),
        ("ordinary", GeoDeg { lat_s: 6100000., lat_n: 6103000., lon_w: 500000., lon_e: 504000., dlat: 500., dlon: 1000. }),
    ];
    for (label, g) in &geometries {
        for bands in 1..=3usize {
            let fv = move |r: usize, c: usize, b: usize| node_value(77 + bands as u32, r, c, b);
            let text = gravsoft_text(g, bands, &fv, TextLayout::RowPerLine);
            rep.eval(1);
            let grid = match catch(|| BaseGrid::gravsoft(text.as_bytes())) {
                Ok(Ok(gr)) => gr,
                other => {
                    rep.violation("well-formed projected Gravsoft grid is rejected or panics", json!({"geometry": label, "bands": bands, "result": format!("{other:?}").chars().take(200).collect::<String>()}));
                    continue;
                }
            };
            let (rows, cols) = (g.rows(), g.cols());
            let mut values = Vec::new();
            for r in 0..rows {
                for c in 0..cols {
                    for b in 0..bands {
                        values.push(fv(r, c, b) as f32);
                    }
                }
            }
            let reference = RefGrid { lat_n: g.lat_n, lat_s: g.lat_s, lon_w: g.lon_w, lon_e: g.lon_e, dlat: g.dlat, dlon: g.dlon, rows, cols, bands, values };
            'q: for r2 in 0..(2 * rows - 1) {
                for c2 in 0..(2 * cols - 1) {
                    // nodes and cell centres / edge mid points
                    let (n, e) = (g.lat_n - 0.5 * r2 as f64 * g.dlat, g.lon_w + 0.5 * c2 as f64 * g.dlon);
                    rep.eval(1);
                    let got = catch(|| grid.at(&Coor4D([e, n, 0., 0.]), 0.0));
                    let want = reference.at(e, n);
                    let ok = match &got {
                        Ok(Some(v)) => (0..bands).all(|b| rel_close(v[b], want[b], 1e-3)),
                        _ => false,
                    };
                    if !ok {
                        rep.violation(
                            &format!("projected Gravsoft grid: geometry or node values are not those written / {label}"),
                            json!({"geometry": format!("{g:?}"), "bands": bands, "easting": e, "northing": n, "observed": format!("{got:?}"), "expected": want}),
                        );
                        break 'q;
                    }
                }
            }
            // through the operator: forward and back again (the corrections of a projected grid stay in metres)
            if bands <= 2 {
                let mut ctx = GridCtx::default();
                let name = if bands == 1 { "p.geoid" } else { "p.datum" };
                // (a smooth version of the grid: the inverse is a fixed-point iteration of ten rounds, which needs
                // corrections that change by a small fraction of their size from node to node, as real grids do)
                let smooth = move |r: usize, c: usize, b: usize| 0.01 * node_value(77 + bands as u32, r, c, b);
                let Ok(smooth_grid) = BaseGrid::gravsoft(gravsoft_text(g, bands, &smooth, TextLayout::RowPerLine).as_bytes()) else { continue };
                ctx.add_grid(name, Arc::new(smooth_grid));
                let def = format!("gridshift grids={name}");
                let Ok(op) = ctx.op(&def) else {
                    rep.violation("gridshift on a projected grid cannot be instantiated", json!({"geometry": label, "bands": bands}));
                    continue;
                };
                for r4 in 1..(4 * (rows - 1)) {
                    for c4 in 1..(4 * (cols - 1)) {
                        let (n, e) = (g.lat_n - 0.25 * r4 as f64 * g.dlat, g.lon_w + 0.25 * c4 as f64 * g.dlon);
                        rep.eval(1);
                        let mut d = [Coor4D([e, n, 10., 2000.])];
                        let nf = ctx.apply(op, Fwd, &mut d).unwrap_or(usize::MAX);
                        let fwd = d[0];
                        let ni = ctx.apply(op, Inv, &mut d).unwrap_or(usize::MAX);
                        let err = (d[0][0] - e).hypot(d[0][1] - n).max((d[0][2] - 10.).abs());
                        if nf != 1 || ni != 1 || !(err <= 1e-6) {
                            rep.violation(
                                &format!("gridshift on a projected grid: the inverse does not undo the forward shift / {label}"),
                                json!({"geometry": format!("{g:?}"), "bands": bands, "input": [e, n, 10., 2000.], "forward": fwd.0, "back": d[0].0, "counts": [nf, ni], "error_m": err}),
                            );
                            break;
                        }
                    }
                }
            }
        }
    }
}

pub fn run(tier: Tier) -> Report {
    let rep = Report::new("C08", tier, "exploration");
    THOROUGH.store(tier == Tier::Thorough, std::sync::atomic::Ordering::Relaxed);
    rep.rule("30 grid geometries x 1..3 bands x 5 text layouts: every cell x 25 in-cell positions + 1e-9 deg either side of inner cell edges + margin (0.25, 0.49 cells) and outside \
              (0.51, 2 cells) points; all orders of all non-empty subsets of 3 overlapping grids x null grid x a 0.3 deg point lattice (through grids_at point by point, and through the gridshift operator with the whole lattice as one set in two orders, and through deformation raw on three-band grids); 6 NTv2 tree shapes x all file orders x both byte \
              orders x a point lattice; operator conventions on generated grids. distinct_nontrivial = distinct interpolated value bit patterns");
    rep.assume("reference = harness bilinear interpolation on node values rounded exactly as the documented unit conversion prescribes (f32); tolerance 1e-12 relative to the largest node value");
    let outcomes = Mutex::new(HashSet::new());
    base_grid_checks(&rep, &outcomes);
    match catch(|| projected_grids(&rep)) {
        Ok(()) => {}
        Err(p) => rep.violation(&format!("panic reading a projected grid: {}", panic_class(&p)), json!({"panic": p})),
    }
    grid_lists(&rep);
    match catch(|| deformation_grid_lists(&rep)) {
        Ok(()) => {}
        Err(p) => rep.violation(&format!("panic in a grid operator: {}", panic_class(&p)), json!({"panic": p})),
    }
    match catch(|| first_hit_on_ntv2_border(&rep)) {
        Ok(()) => {}
        Err(p) => rep.violation(&format!("panic in a grid operator: {}", panic_class(&p)), json!({"panic": p})),
    }
    match catch(|| mixed_kind_lists(&rep)) {
        Ok(()) => {}
        Err(p) => rep.violation(&format!("panic in a grid operator: {}", panic_class(&p)), json!({"panic": p})),
    }
    match catch(|| deflection_adjacent_lists(&rep)) {
        Ok(()) => {}
        Err(p) => rep.violation(&format!("panic in a grid operator: {}", panic_class(&p)), json!({"panic": p})),
    }
    match catch(|| deflection_flat_lists(&rep)) {
        Ok(()) => {}
        Err(p) => rep.violation(&format!("panic in a grid operator: {}", panic_class(&p)), json!({"panic": p})),
    }
    match catch(|| operator_grid_lists(&rep)) {
        Ok(()) => {}
        Err(p) => rep.violation(&format!("panic in a grid operator: {}", panic_class(&p)), json!({"panic": p})),
    }
    ntv2_trees(&rep, &outcomes);
    match catch(|| operator_conventions(&rep)) {
        Ok(()) => {}
        Err(p) => rep.violation(&format!("panic in a grid operator: {}", panic_class(&p)), json!({"panic": p})),
    }
    rep.sample(json!({"geometry": format!("{:?}", geometries()[7]), "bands": 2, "queries": queries(&geometries()[7]).len()}));
    rep.sample(json!({"ntv2_shape": "root + child + grandchild", "file_orders": 6, "byte_orders": 2}));
    let o = outcomes.into_inner().unwrap();
    rep.nontrivial_bulk(&o);
    rep.outcomes_bulk(&o);
    rep
}
