//! C06 — ellipsoid geometry: conversions, geodesics, latitudes and constants are coherent.
//! All table entries (hook H2 + the harness's own transcription of the published a, 1/f) and
//! synthetic ellipsoids x latitude/longitude/height lattices x geodesic start/azimuth/distance
//! lattices x all six auxiliary latitudes, against closed forms and Gauss-Legendre quadrature.

use crate::engine::*;
use crate::geo::*;
use geodesy::authoring::*;
use serde_json::json;
use std::collections::{BTreeMap, HashSet};
use std::f64::consts::{FRAC_PI_2, PI};
use std::sync::Mutex;

fn rel(a: f64, b: f64) -> f64 {
    if a == b {
        0.
    } else {
        (a - b).abs() / a.abs().max(b.abs())
    }
}

fn table_checks(rep: &Report) {
    let table = geodesy::verif::ellipsoid_table();
    rep.set("table_entries", json!(table.len()));
    for e in &table {
        let name = e[0];
        rep.eval(1);
        let Some((_, a_ref, rf_ref)) = REF_ELLIPSOIDS.iter().find(|r| r.0 == name).copied() else {
            println!("UNCOVERED ellipsoid={name} (no published reference in the harness table)");
            rep.add_to("uncovered", json!(format!("ellipsoid {name}")));
            continue;
        };
        match catch(|| Ellipsoid::named(name)) {
            Err(p) => rep.violation(&format!("built-in ellipsoid cannot be instantiated (panic) / {name}"), json!({"name": name, "panic": p, "table_row": e})),
            Ok(Err(er)) => rep.violation(&format!("built-in ellipsoid cannot be instantiated / {name}"), json!({"name": name, "error": er.to_string()})),
            Ok(Ok(ell)) => {
                let f_ref = if rf_ref == 0. { 0. } else { 1. / rf_ref };
                if rel(ell.semimajor_axis(), a_ref) > 1e-12 || (ell.flattening() - f_ref).abs() > 1e-9 * f_ref.max(1e-3) {
                    rep.violation(
                        &format!("built-in ellipsoid does not carry the published a and 1/f / {name}"),
                        json!({"name": name, "a": ell.semimajor_axis(), "rf": if ell.flattening() == 0. { 0. } else { 1. / ell.flattening() }, "published_a": a_ref, "published_rf": rf_ref}),
                    );
                }
            }
        }
    }
    // the triaxial type reads the same table: every name instantiates there too, with the same a and f (its derived
    // parameters come from the shared EllipsoidBase code, so f itself is compared, not 1/f)
    for e in &table {
        let name = e[0];
        rep.eval(1);
        let (Ok(Ok(bi)), tri) = (catch(|| Ellipsoid::named(name)), catch(|| TriaxialEllipsoid::named(name))) else { continue };
        match tri {
            Ok(Ok(t)) => {
                if t.semimajor_axis().to_bits() != bi.semimajor_axis().to_bits() || t.flattening().to_bits() != bi.flattening().to_bits() || !(t.semiminor_axis() - bi.semiminor_axis()).abs().le(&1e-9) {
                    rep.violation(
                        "built-in ellipsoid differs between the biaxial and the triaxial type",
                        json!({"name": name, "biaxial": {"a": bi.semimajor_axis(), "f": bi.flattening(), "b": bi.semiminor_axis()}, "triaxial": {"a": t.semimajor_axis(), "f": format!("{}", t.flattening()), "b": format!("{}", t.semiminor_axis())}}),
                    );
                }
            }
            other => rep.violation("built-in ellipsoid cannot be instantiated as a triaxial ellipsoid", json!({"name": name, "result": format!("{:?}", other.map(|r| r.is_ok()))})),
        }
    }
    for (name, _, _) in REF_ELLIPSOIDS.iter() {
        if !table.iter().any(|e| e[0] == *name) {
            rep.add_to("reference_names_absent_from_library_table", json!(name));
        }
    }
}

fn derived_identities(rep: &Report, name: &str, e: &Ellipsoid) {
    let (a, f) = (e.semimajor_axis(), e.flattening());
    let b = a * (1. - f);
    let es = f * (2. - f);
    let checks: [(&str, f64, f64); 9] = [
        ("semiminor axis b = a(1-f)", e.semiminor_axis(), b),
        ("e2 = f(2-f) = (a2-b2)/a2", e.eccentricity_squared(), (a * a - b * b) / (a * a)),
        ("e = sqrt(e2)", e.eccentricity(), es.sqrt()),
        ("e'2 = (a2-b2)/b2", e.second_eccentricity_squared(), (a * a - b * b) / (b * b)),
        ("second flattening (a-b)/b", e.second_flattening(), (a - b) / b),
        ("third flattening (a-b)/(a+b)", e.third_flattening(), (a - b) / (a + b)),
        ("aspect ratio a/b", e.aspect_ratio(), a / b),
        ("linear eccentricity sqrt(a2-b2)", e.linear_eccentricity(), (a * a - b * b).sqrt()),
        ("polar radius of curvature a2/b", e.polar_radius_of_curvature(), a * a / b),
    ];
    for (what, got, want) in checks {
        rep.eval(1);
        let tol: f64 = if what.starts_with("linear") || what.starts_with("e =") { 1e-9 } else { 1e-12 };
        let bad = if want == 0. { got.abs() > 1e-12 } else { rel(got, want) > tol.max(4e-16 / (f.max(1e-6))) };
        if bad {
            rep.violation(&format!("derived shape parameter violates its defining identity: {what}"), json!({"ellipsoid": name, "got": got, "expected": want}));
        }
    }
}

fn cart_checks(rep: &Report, name: &str, e: &Ellipsoid, ell: &Ell, lats: &[f64], lons: &[f64], worst: &Mutex<BTreeMap<String, f64>>) {
    let mut ctx = Minimal::default();
    let op = match ctx.op(&format!("cart ellps={name}")) {
        Ok(op) => op,
        Err(er) => {
            rep.violation("cart cannot be instantiated for an instantiable ellipsoid", json!({"ellipsoid": name, "error": er.to_string()}));
            return;
        }
    };
    let mut w_op = 0f64;
    let mut w_cf = 0f64;
    // (plus a ladder next to the polar axis: 0.1 mm to 0.1 m from it, where the inverses have their shortcuts)
    let near_axis: Vec<f64> = [1e-9, 1e-8, 2e-8, 3.5e-8, 1e-7, 1e-6].iter().flat_map(|c| [90. - c, c - 90.]).collect();
    for &lat in lats.iter().chain(near_axis.iter()) {
        for &lon in lons {
            for &h in &[-10_000., 0., 1., 8848., 100_000., 1e6, 1e7] {
                let g = Coor4D([lon.to_radians(), lat.to_radians(), h, 0.]);
                rep.eval(1);
                // forward: trait method vs harness formula
                let c = e.cartesian(&g);
                let want = ell.geo_to_cart(g[0], g[1], h);
                let d = ((c[0] - want[0]).powi(2) + (c[1] - want[1]).powi(2) + (c[2] - want[2]).powi(2)).sqrt();
                if d > 1e-9 + 4e-15 * (want[0].abs() + want[1].abs() + want[2].abs()) {
                    rep.violation("geographic to cartesian differs from the defining formula", json!({"ellipsoid": name, "geographic": g.0, "got": c.0, "expected": want}));
                }
                // points of height zero satisfy the ellipsoid equation
                if h == 0. {
                    let b = ell.b();
                    let q = (c[0] * c[0] + c[1] * c[1]) / (ell.a * ell.a) + c[2] * c[2] / (b * b);
                    if (q - 1.).abs() > 1e-14 {
                        rep.violation("a point of height zero does not satisfy the ellipsoid equation", json!({"ellipsoid": name, "geographic": g.0, "x2/a2+y2/a2+z2/b2": q}));
                    }
                }
                // closed form inverse: 1 cm for h in [-10 km, 100 km]
                let back = e.geographic(&c);
                let d_cf = ell.ground(g[0], g[1], back[0], back[1]).max((back[2] - h).abs());
                // operator inverse: 1 um for h in [-10 km, 100 km]
                let mut data = [c];
                let _ = ctx.apply(op, Inv, &mut data);
                let d_op = ell.ground(g[0], g[1], data[0][0], data[0][1]).max((data[0][2] - h).abs());
                if h <= 100_000. {
                    w_op = w_op.max(d_op);
                    w_cf = w_cf.max(d_cf);
                    if !(d_op <= 1e-6) {
                        rep.violation("cart operator round trip exceeds 1 micrometre for h in [-10 km, 100 km]", json!({"ellipsoid": name, "geographic": g.0, "back": data[0].0, "distance_m": d_op}));
                    }
                    if !(d_cf <= 1e-2) {
                        rep.violation("closed form cartesian->geographic exceeds 1 cm for h in [-10 km, 100 km]", json!({"ellipsoid": name, "geographic": g.0, "back": back.0, "distance_m": d_cf}));
                    }
                } else if !(d_op <= 1e-3) && f64::from(ell.f as f32) <= 1. / 290. {
                    rep.violation("cart operator round trip exceeds 1 mm up to h = 1e7 m", json!({"ellipsoid": name, "geographic": g.0, "back": data[0].0, "distance_m": d_op}));
                }
            }
        }
    }
    let mut w = worst.lock().unwrap();
    let a = w.entry("cart operator round trip, h<=100km (m)".into()).or_insert(0.);
    *a = a.max(w_op);
    let b = w.entry("closed form cartesian->geographic, h<=100km (m)".into()).or_insert(0.);
    *b = b.max(w_cf);
}

fn latitude_checks(rep: &Report, name: &str, e: &Ellipsoid, ell: &Ell, step: f64, worst: &Mutex<BTreeMap<String, f64>>) {
    let es = ell.es();
    let ecc = es.sqrt();
    let rect = e.coefficients_for_rectifying_latitude_computations();
    let conf = e.coefficients_for_conformal_latitude_computations();
    let auth = e.coefficients_for_authalic_latitude_computations();
    let quadrant = ell.meridian_arc(FRAC_PI_2);
    let q = |phi: f64| -> f64 {
        let s = phi.sin();
        if ecc == 0. {
            return 2. * s;
        }
        (1. - es) * (s / (1. - es * s * s) - (1. / (2. * ecc)) * ((1. - ecc * s) / (1. + ecc * s)).ln())
    };
    let qp = q(FRAC_PI_2);
    type F<'a> = Box<dyn Fn(f64) -> f64 + 'a>;
    let kinds: Vec<(&str, F, F, F, bool)> = vec![
        ("geocentric", Box::new(|p| e.latitude_geographic_to_geocentric(p)), Box::new(|p| e.latitude_geocentric_to_geographic(p)), Box::new(|p: f64| ((1. - es) * p.tan()).atan()), true),
        ("reduced", Box::new(|p| e.latitude_geographic_to_reduced(p)), Box::new(|p| e.latitude_reduced_to_geographic(p)), Box::new(|p: f64| ((1. - ell.f) * p.tan()).atan()), true),
        (
            "isometric",
            Box::new(|p| e.latitude_geographic_to_isometric(p)),
            Box::new(|p| e.latitude_isometric_to_geographic(p)),
            Box::new(|p: f64| p.tan().asinh() - ecc * (ecc * p.sin()).atanh()),
            false,
        ),
        (
            "conformal",
            Box::new(|p| e.latitude_geographic_to_conformal(p, &conf)),
            Box::new(|p| e.latitude_conformal_to_geographic(p, &conf)),
            Box::new(|p: f64| (p.tan().asinh() - ecc * (ecc * p.sin()).atanh()).sinh().atan()),
            true,
        ),
        ("authalic", Box::new(|p| e.latitude_geographic_to_authalic(p, &auth)), Box::new(|p| e.latitude_authalic_to_geographic(p, &auth)), Box::new(|p: f64| (q(p) / qp).clamp(-1., 1.).asin()), true),
        (
            "rectifying",
            Box::new(|p| e.latitude_geographic_to_rectifying(p, &rect)),
            Box::new(|p| e.latitude_rectifying_to_geographic(p, &rect)),
            Box::new(|p: f64| FRAC_PI_2 * ell.meridian_arc(p) / quadrant),
            true,
        ),
    ];
    let lats = lat_lattice(step, 90.);
    for (kind, fwd, inv, closed, bounded) in &kinds {
        let mut prev: Option<(f64, f64)> = None;
        let mut w_rt = 0f64;
        let mut w_cf = 0f64;
        for &lat in &lats {
            let phi = lat.to_radians();
            if !bounded && lat.abs() > 89.95 {
                continue;
            }
            rep.eval(1);
            let x = fwd(phi);
            let at = json!({"ellipsoid": name, "kind": kind, "lat_deg": lat, "value": x});
            // odd
            let xm = fwd(-phi);
            if !(bits(x) == bits(-xm) || (x + xm).abs() <= 1e-15 * (1. + x.abs())) {
                rep.violation(&format!("auxiliary latitude is not odd / {kind}"), at.clone());
            }
            // fixes 0 and the poles
            if lat == 0. && x != 0. {
                rep.violation(&format!("auxiliary latitude does not fix 0 / {kind}"), at.clone());
            }
            if *bounded && lat.abs() == 90. && (x.abs() - FRAC_PI_2).abs() > 1e-12 {
                rep.violation(&format!("auxiliary latitude does not fix the poles / {kind}"), at.clone());
            }
            // strictly increasing along the lattice
            if let Some((plat, px)) = prev {
                if !(x > px) && lat - plat > 1e-7 {
                    rep.violation(&format!("auxiliary latitude is not strictly increasing / {kind}"), json!({"ellipsoid": name, "kind": kind, "lat_deg": [plat, lat], "values": [px, x]}));
                }
            }
            prev = Some((lat, x));
            // round trip 1e-12 rad
            let back = inv(x);
            // at the poles the conformal/isometric inverse is ill-conditioned; judged on the ground instead
            let rt = (back - phi).abs();
            w_rt = w_rt.max(rt);
            if !(rt <= 1e-12) {
                rep.violation(&format!("auxiliary latitude round trip exceeds 1e-12 rad / {kind}"), json!({"ellipsoid": name, "kind": kind, "lat_deg": lat, "aux": x, "back_deg": back.to_degrees(), "error_rad": rt}));
            }
            // closed form definition (1e-11 rad; relative for the unbounded isometric latitude)
            let want = closed(phi);
            let diff = if *bounded { (x - want).abs() } else { (x - want).abs() / (1. + want.abs()) };
            if lat.abs() < 89.95 {
                w_cf = w_cf.max(diff);
                if !(diff <= 1e-11) {
                    rep.violation(&format!("auxiliary latitude differs from its closed-form definition by more than 1e-11 rad / {kind}"), json!({"ellipsoid": name, "kind": kind, "lat_deg": lat, "series": x, "closed_form": want, "difference": diff}));
                }
            }
        }
        let mut w = worst.lock().unwrap();
        let a = w.entry(format!("{kind} round trip (rad)")).or_insert(0.);
        *a = a.max(w_rt);
        let b = w.entry(format!("{kind} vs closed form (rad)")).or_insert(0.);
        *b = b.max(w_cf);
    }
    // meridian distance <-> latitude are mutual inverses, and agree with quadrature
    let mut w_md = 0f64;
    let mut w_mq = 0f64;
    for &lat in &lats {
        let phi = lat.to_radians();
        rep.eval(1);
        let d = e.meridian_latitude_to_distance(phi);
        let back = e.meridian_distance_to_latitude(d);
        let err = (back - phi).abs() * ell.a;
        w_md = w_md.max(err);
        // the property states no figure; Bowring's compact formulae are a truncated method (0.06 mm for
        // GRS80, 0.9 mm for f = 1/150), so "mutual inverses" is judged at 1 mm
        if !(err <= 1e-3) {
            rep.violation("meridian distance and latitude are not mutual inverses (> 1 mm)", json!({"ellipsoid": name, "lat_deg": lat, "distance": d, "back_deg": back.to_degrees(), "error_m": err}));
        }
        let want = ell.meridian_arc(phi);
        w_mq = w_mq.max((d - want).abs());
    }
    let mut w = worst.lock().unwrap();
    let a = w.entry("meridian distance<->latitude round trip (m)".into()).or_insert(0.);
    *a = a.max(w_md);
    let b = w.entry("meridian distance vs quadrature (m)".into()).or_insert(0.);
    *b = b.max(w_mq);

}

fn wrap(mut d: f64) -> f64 {
    d %= 2. * PI;
    if d > PI {
        d -= 2. * PI;
    }
    if d < -PI {
        d += 2. * PI;
    }
    d
}

fn geodesic_checks(rep: &Report, name: &str, e: &Ellipsoid, ell: &Ell, tier: Tier, worst: &Mutex<BTreeMap<String, f64>>) {
    let starts: Vec<(f64, f64)> = match tier {
        Tier::Quick => vec![(55., 12.), (-33.9, 151.2), (0., 0.), (10.3, -70.), (80.7, 179.9), (-66.6, -179.9)],
        Tier::Thorough => {
            let mut v = Vec::new();
            for lat in [-85., -66.6, -45., -23.4, -10.3, 0., 1e-9, 10.3, 23.4, 45., 55., 66.6, 80.7, 85.] {
                for lon in [-179.9, -120., -70., 0., 12., 151.2, 179.9] {
                    v.push((lat, lon));
                }
            }
            v
        }
    };
    let mut azis: Vec<f64> = (0..24).map(|k| k as f64 * 15.).collect();
    azis.extend([0.1, 89.9, 90.1, 179.9, 180.1, 269.9, 270.1, 359.9]);
    let dists = [1., 1000., 100_000., 5_000_000., 10_000_000., 19_000_000.];
    let quadrant = ell.meridian_arc(FRAC_PI_2);
    let mut w_cons = 0f64;
    let mut w_sym = 0f64;
    for &(lat, lon) in &starts {
        let p1 = Coor2D::geo(lat, lon);
        for &azi in &azis {
            for &s in &dists {
                rep.eval(1);
                let az = azi.to_radians();
                let dest = e.geodesic_fwd(&p1, az, s);
                let at = json!({"ellipsoid": name, "start_deg": [lat, lon], "azimuth_deg": azi, "distance_m": s});
                if dest[3] > 990. || !dest[0].is_finite() || !dest[1].is_finite() {
                    rep.violation("direct geodesic problem does not converge outside the near-antipodal zone", at);
                    continue;
                }
                let p2 = Coor2D::raw(dest[0], dest[1]);
                // near-antipodal pairs are the documented non-convergence zone of the inverse problem
                let ang = angular_distance(lat, lon, dest[1].to_degrees(), dest[0].to_degrees());
                if ang > 179. {
                    continue;
                }
                let inv = e.geodesic_inv(&p1, &p2);
                if inv[3] > 990. {
                    if ang < 175. {
                        rep.violation("inverse geodesic problem does not converge outside the near-antipodal zone", at);
                    }
                    continue;
                }
                // consistency: distance and (distance-weighted) forward azimuth
                let ds = (inv[2] - s).abs();
                let da = wrap(inv[0] - az).abs() * s.min(ell.a) * p1[1].cos().max(0.01);
                w_cons = w_cons.max(ds).max(da);
                if !(ds <= 1e-3) || !(da <= 1e-3) {
                    rep.violation(
                        "direct and inverse geodesic problems are not mutually consistent (> 1 mm)",
                        json!({"ellipsoid": name, "start_deg": [lat, lon], "azimuth_deg": azi, "distance_m": s, "destination_deg": [dest[1].to_degrees(), dest[0].to_degrees()],
                               "inverse_distance_m": inv[2], "inverse_azimuth_deg": inv[0].to_degrees(), "distance_error_m": ds, "azimuth_error_m": da}),
                    );
                }
                // symmetry in the end points
                let rev = e.geodesic_inv(&p2, &p1);
                if rev[3] <= 990. {
                    let d2 = (rev[2] - inv[2]).abs();
                    // forward azimuth of the reverse problem is the return azimuth +- 180
                    let a2 = wrap(rev[0] - (inv[1] + PI)).abs() * s.min(ell.a) * dest[1].cos().abs().max(0.01);
                    let a3 = wrap(rev[1] - (inv[0] + PI)).abs() * s.min(ell.a) * p1[1].cos().max(0.01);
                    w_sym = w_sym.max(d2).max(a2).max(a3);
                    if !(d2 <= 1e-3) || !(a2 <= 1e-3) || !(a3 <= 1e-3) {
                        rep.violation(
                            "inverse geodesic problem is not symmetric in its end points (> 1 mm)",
                            json!({"ellipsoid": name, "p1_deg": [lat, lon], "p2_deg": [dest[1].to_degrees(), dest[0].to_degrees()], "p1->p2": inv.0, "p2->p1": rev.0}),
                        );
                    }
                }
                // meridians: azimuth 0 / 180 from a point: distance equals the meridian arc
                if (azi == 0. || azi == 180.) && s <= 10_000_000. {
                    let (la1, la2) = (lat.to_radians(), dest[1]);
                    // crossing a pole changes the longitude by pi: arc via the pole
                    let crossed = wrap(dest[0] - lon.to_radians()).abs() > 1.;
                    let arc = if crossed {
                        let sign = if azi == 0. { 1. } else { -1. };
                        (quadrant - sign * ell.meridian_arc(la1)) + (quadrant - sign * ell.meridian_arc(la2))
                    } else {
                        (ell.meridian_arc(la2) - ell.meridian_arc(la1)).abs()
                    };
                    if !((arc - s).abs() <= 1e-3) {
                        rep.violation("a geodesic along a meridian does not have the length of the meridian arc (> 1 mm)", json!({"ellipsoid": name, "start_deg": [lat, lon], "azimuth_deg": azi, "distance_m": s, "arc_m": arc, "destination_deg": [dest[1].to_degrees(), dest[0].to_degrees()]}));
                    }
                }
                // equator: azimuth 90 / 270 from the equator: a * dlon
                if lat == 0. && (azi == 90. || azi == 270.) {
                    let want = s / ell.a;
                    let got = wrap(dest[0] - lon.to_radians()).abs();
                    if !((got - want.min(2. * PI - want)).abs() * ell.a <= 1e-3) || dest[1].abs() * ell.a > 1e-3 {
                        rep.violation("a geodesic along the equator does not have length a*dlon (> 1 mm)", json!({"ellipsoid": name, "start_deg": [lat, lon], "azimuth_deg": azi, "distance_m": s, "destination_deg": [dest[1].to_degrees(), dest[0].to_degrees()]}));
                    }
                }
                // sphere: great circle
                if ell.f == 0. {
                    let (p, l) = (lat.to_radians(), lon.to_radians());
                    let d = s / ell.a;
                    let lat2 = (p.sin() * d.cos() + p.cos() * d.sin() * az.cos()).asin();
                    let lon2 = l + (az.sin() * d.sin() * p.cos()).atan2(d.cos() - p.sin() * lat2.sin());
                    let err = ell.ground(lon2, lat2, dest[0], dest[1]);
                    if !(err <= 1e-3) {
                        rep.violation("on a sphere the geodesic is not the great circle (> 1 mm)", json!({"ellipsoid": name, "start_deg": [lat, lon], "azimuth_deg": azi, "distance_m": s, "error_m": err}));
                    }
                }
            }
        }
    }
    let mut w = worst.lock().unwrap();
    let a = w.entry("geodesic direct/inverse consistency (m)".into()).or_insert(0.);
    *a = a.max(w_cons);
    let b = w.entry("geodesic end point symmetry (m)".into()).or_insert(0.);
    *b = b.max(w_sym);
}

pub fn run(tier: Tier) -> Report {
    let rep = Report::new("C06", tier, "exploration");
    rep.rule("every table entry (names, a, 1/f against the published list) and synthetic ellipsoids (f = 0, 1/1000, 1/300, 1/150) x latitude lattice (poles, equator, special \
              latitudes, uniform step) x longitude lattice x 7 heights x geodesic (start x 32 azimuths x 6 distances) x six auxiliary latitudes; oracles: defining identities, closed \
              forms, Gauss-Legendre quadrature. distinct_nontrivial = distinct (ellipsoid, check family) pairs times lattice sizes sampled as hashes");
    rep.assume("geodesic consistency, symmetry and arc comparisons are judged at 1 mm (the property states no figure); pairs closer than 1 degree to antipodal are the documented non-convergence zone");
    table_checks(&rep);
    let mut names: Vec<String> = match tier {
        Tier::Quick => ["GRS80", "intl", "bessel", "clrk66", "mprts", "sphere", "WGS84", "krass"].iter().map(|s| s.to_string()).collect(),
        Tier::Thorough => geodesy::verif::ellipsoid_table().iter().map(|e| e[0].to_string()).filter(|n| n != "unitsphere").collect(),
    };
    names.extend(["6378137,150", "6378137,300", "6378137,1000", "6400000,200", "6370997,0"].iter().map(|s| s.to_string()));
    let step = tier.pick(5., 0.5);
    let lats = lat_lattice(tier.pick(15., 5.), 90.);
    let lons = dlon_lattice(tier.pick(60., 30.), 180.);
    let outcomes = Mutex::new(HashSet::new());
    let worst: Mutex<BTreeMap<String, f64>> = Mutex::new(BTreeMap::new());
    par_range(names.len(), |i| {
        let name = &names[i];
        let Ok(Ok(e)) = catch(|| Ellipsoid::named(name)) else {
            return; // reported by table_checks
        };
        // the geometric checks use exactly the (a, f) the library carries (the published values are judged by table_checks)
        let ell = Ell { a: e.semimajor_axis(), f: e.flattening() };
        let r = catch(|| {
            derived_identities(&rep, name, &e);
            cart_checks(&rep, name, &e, &ell, &lats, &lons, &worst);
            latitude_checks(&rep, name, &e, &ell, step, &worst);
            geodesic_checks(&rep, name, &e, &ell, tier, &worst);
        });
        if let Err(p) = r {
            rep.violation(&format!("panic in an ellipsoid method: {}", panic_class(&p)), json!({"ellipsoid": name, "panic": p}));
        }
        outcomes.lock().unwrap().insert(hash_of(name));
        for k in 0..lats.len() {
            outcomes.lock().unwrap().insert(hash_of(&(name, k)));
        }
    });
    rep.set("ellipsoids", json!(names));
    rep.set("observed_maxima", json!(*worst.lock().unwrap()));
    rep.sample(json!({"ellipsoid": "GRS80", "latitude_lattice_deg": lat_lattice(step, 90.).len(), "geodesic_cases_per_start": 32 * 6}));
    rep.sample(json!({"ellipsoid": "6378137,150", "note": "synthetic, f = 1/150"}));
    let o = outcomes.into_inner().unwrap();
    rep.nontrivial_bulk(&o);
    rep.outcomes_bulk(&o);
    rep
}
