//! C07 — datum shifts: Helmert is a similarity with the declared conventions and epochs.
//! Complete product of parameter sets (translation x rotation x scale x rates x convention x
//! exact x spelling) x epochs x t_obs x direction x 27 cartesian points. Oracles: the EPSG
//! small-angle formulae as a 3x3 matrix in the harness; metamorphic relations (distances scale,
//! PV(r) == CF(-r), PV matrix == CF matrix transposed in exact mode, scalar == list spelling,
//! t untouched, t_obs == every tuple at that epoch, inverse undoes forward); molodensky against
//! the cartesian three-parameter path.

use crate::engine::*;
use crate::geo::*;
use geodesy::authoring::*;
use serde_json::json;
use std::collections::{BTreeMap, HashSet};
use std::sync::Mutex;

type C4 = [f64; 4];
const ARCSEC: f64 = std::f64::consts::PI / (180. * 3600.);

#[derive(Clone, Debug)]
struct P {
    t: [f64; 3],
    r: [f64; 3], // arcsec
    s: f64,      // ppm
    dt: [f64; 3],
    dr: [f64; 3],
    ds: f64,
    pv: bool,
    exact: bool,
    t_epoch: f64,
    t_obs: Option<f64>,
}

impl P {
    fn dynamic(&self) -> bool {
        self.dt != [0.; 3] || self.dr != [0.; 3] || self.ds != 0.
    }
    fn rotated(&self) -> bool {
        self.r != [0.; 3] || self.dr != [0.; 3]
    }
    /// spelling: 0 = PROJ style scalars, 1 = comma separated lists, 2 = mixed
    fn def(&self, spelling: u8) -> String {
        let mut v: Vec<String> = vec!["helmert".into()];
        let list = |a: &[f64; 3]| format!("{:?},{:?},{:?}", a[0], a[1], a[2]);
        let scal = |k: [&str; 3], a: &[f64; 3]| format!("{}={:?} {}={:?} {}={:?}", k[0], a[0], k[1], a[1], k[2], a[2]);
        let use_list = |i: usize| spelling == 1 || (spelling == 2 && i % 2 == 0);
        if self.t != [0.; 3] {
            v.push(if use_list(0) { format!("translation={}", list(&self.t)) } else { scal(["x", "y", "z"], &self.t) });
        }
        if self.r != [0.; 3] {
            v.push(if use_list(1) { format!("rotation={}", list(&self.r)) } else { scal(["rx", "ry", "rz"], &self.r) });
        }
        if self.s != 0. {
            v.push(if use_list(2) { format!("scale={:?}", self.s) } else { format!("s={:?}", self.s) });
        }
        if self.dt != [0.; 3] {
            v.push(if use_list(3) { format!("velocity={}", list(&self.dt)) } else { scal(["dx", "dy", "dz"], &self.dt) });
        }
        if self.dr != [0.; 3] {
            v.push(if use_list(4) { format!("angular_velocity={}", list(&self.dr)) } else { scal(["drx", "dry", "drz"], &self.dr) });
        }
        if self.ds != 0. {
            v.push(if use_list(5) { format!("scale_trend={:?}", self.ds) } else { format!("ds={:?}", self.ds) });
        }
        if self.rotated() {
            v.push(format!("convention={}", if self.pv { "position_vector" } else { "coordinate_frame" }));
        }
        if self.exact {
            v.push("exact".into());
        }
        if self.dynamic() {
            v.push(format!("t_epoch={:?}", self.t_epoch));
            if let Some(t) = self.t_obs {
                v.push(format!("t_obs={t:?}"));
            }
        }
        v.join(" ")
    }

    /// EPSG small-angle reference: X' = T(t) + (1 + s(t)) * R(t) * X
    fn reference_small_angle(&self, x: C4) -> C4 {
        let t = self.t_obs.unwrap_or(x[3]);
        let dt = if self.dynamic() { t - self.t_epoch } else { 0. };
        let tt = [self.t[0] + dt * self.dt[0], self.t[1] + dt * self.dt[1], self.t[2] + dt * self.dt[2]];
        let sign = if self.pv { 1. } else { -1. };
        let r = [
            sign * (self.r[0] + dt * self.dr[0]) * ARCSEC,
            sign * (self.r[1] + dt * self.dr[1]) * ARCSEC,
            sign * (self.r[2] + dt * self.dr[2]) * ARCSEC,
        ];
        let m = 1. + (self.s + dt * self.ds) * 1e-6;
        [
            tt[0] + m * (x[0] - r[2] * x[1] + r[1] * x[2]),
            tt[1] + m * (r[2] * x[0] + x[1] - r[0] * x[2]),
            tt[2] + m * (-r[1] * x[0] + r[0] * x[1] + x[2]),
            x[3],
        ]
    }
    fn angle_norm(&self, dt: f64) -> f64 {
        ((self.r[0] + dt * self.dr[0]).powi(2) + (self.r[1] + dt * self.dr[1]).powi(2) + (self.r[2] + dt * self.dr[2]).powi(2)).sqrt() * ARCSEC
    }
}

fn points() -> Vec<[f64; 3]> {
    let mut v = vec![[0., 0., 0.], [6378137., 0., 0.], [0., -6378137., 0.], [0., 0., 6356752.3], [1e7, 0., 0.], [0., 0., -1e7]];
    let g = ref_ellipsoid("GRS80").unwrap();
    for (lat, lon, h) in [
        (55., 12., 100.), (-33.9, 151.2, 0.), (0., 0., 0.), (89.9, -70., 3000.), (-89.9, 30., -100.), (45., 180., 8848.), (23.4, -179.9, 0.), (-10.3, 90., 1e5), (66.6, -90., 1e6),
        (10.3, 45., -10_000.), (-45., -45., 0.), (35.7, 139.7, 40.), (-34.6, -58.4, 25.), (64.1, -21.9, 50.), (1.3, 103.8, 15.), (-77.8, 166.7, 10.), (78.2, 15.6, 20.),
        (28.6, 77.2, 216.), (40.7, -74., 10.), (51.5, -0.1, 35.), (30., 31.2, 23.),
    ] {
        v.push(g.geo_to_cart(f64::to_radians(lon), f64::to_radians(lat), h));
    }
    v
}

fn dist(a: C4, b: C4) -> f64 {
    ((a[0] - b[0]).powi(2) + (a[1] - b[1]).powi(2) + (a[2] - b[2]).powi(2)).sqrt()
}

fn apply_def(def: &str, dir: Direction, data: &[C4]) -> Result<(usize, Vec<C4>), String> {
    apply_def_with(&[], def, dir, data)
}

fn apply_def_with(macros: &[(String, String)], def: &str, dir: Direction, data: &[C4]) -> Result<(usize, Vec<C4>), String> {
    match catch(|| {
        let mut ctx = Minimal::default();
        for (name, body) in macros {
            ctx.register_resource(name, body);
        }
        let op = ctx.op(def).map_err(|e| e.to_string())?;
        let mut d: Vec<Coor4D> = data.iter().map(|t| Coor4D(*t)).collect();
        let n = ctx.apply(op, dir, &mut d).map_err(|e| e.to_string())?;
        Ok::<_, String>((n, d.iter().map(|c| c.0).collect()))
    }) {
        Ok(r) => r,
        Err(p) => Err(format!("PANIC {p}")),
    }
}

fn check_param_set(rep: &Report, p: &P, pts: &[[f64; 3]], epochs: &[f64], worst: &Mutex<BTreeMap<String, f64>>, outcomes: &Mutex<HashSet<u64>>) {
    // the set has mixed epochs: point i carries epoch i mod len
    let data: Vec<C4> = pts.iter().enumerate().map(|(i, q)| [q[0], q[1], q[2], epochs[i % epochs.len()]]).collect();
    let def = p.def(0);
    let class = format!(
        "{}{}{}{}{}",
        if p.rotated() { if p.pv { "position_vector" } else { "coordinate_frame" } } else { "no rotation" },
        if p.exact { " exact" } else { "" },
        if p.dynamic() { " dynamic" } else { "" },
        if p.t_obs.is_some() { " t_obs" } else { "" },
        if p.s != 0. || p.ds != 0. { " scaled" } else { "" }
    );
    let fwd = match apply_def(&def, Fwd, &data) {
        Ok(r) => r,
        Err(e) => {
            rep.violation(&format!("valid parameter set rejected or panics ({}) / {class}", e.split(' ').next().unwrap_or("")), json!({"def": def, "error": e}));
            return;
        }
    };
    rep.eval(data.len() as u64);
    let mut w_ref = 0f64;
    let mut w_inv = 0f64;
    // 1. the fourth coordinate is untouched, the count is the set size
    if fwd.0 != data.len() || fwd.1.iter().zip(data.iter()).any(|(a, b)| bits(a[3]) != bits(b[3])) {
        rep.violation(&format!("helmert changes the fourth coordinate or miscounts / {class}"), json!({"def": def, "count": fwd.0, "set_size": data.len()}));
    }
    // 2. reference formula (small-angle mode: exact agreement; exact mode: agreement to second order in the angles)
    for (x, y) in data.iter().zip(fwd.1.iter()) {
        let want = p.reference_small_angle(*x);
        let d = dist(*y, want);
        let dt = if p.dynamic() { p.t_obs.unwrap_or(x[3]) - p.t_epoch } else { 0. };
        let norm = (x[0] * x[0] + x[1] * x[1] + x[2] * x[2]).sqrt();
        let tol = if p.exact { 1e-8 + 1.5 * p.angle_norm(dt).powi(2) * norm } else { 1e-8 + 1e-15 * norm };
        if !p.exact {
            w_ref = w_ref.max(d);
        }
        if !(d <= tol) {
            rep.violation(
                &format!("forward result is not T + (1+s)*R*x with the parameters evaluated at the tuple's epoch / {class}"),
                json!({"def": def, "input": x, "observed": y, "expected": want, "distance_m": d, "tolerance_m": tol}),
            );
            break;
        }
    }
    // 3. similarity: pairwise distances scale by (1+s) when all tuples share one epoch (exact mode: proper rotation)
    if p.exact || !p.rotated() {
        let t0 = epochs[0];
        let same_epoch: Vec<C4> = pts.iter().map(|q| [q[0], q[1], q[2], t0]).collect();
        if let Ok((_, out)) = apply_def(&def, Fwd, &same_epoch) {
            let dt = if p.dynamic() { p.t_obs.unwrap_or(t0) - p.t_epoch } else { 0. };
            let m = 1. + (p.s + dt * p.ds) * 1e-6;
            for i in (0..pts.len()).step_by(3) {
                for j in (i + 1..pts.len()).step_by(2) {
                    let (d0, d1) = (dist(same_epoch[i], same_epoch[j]), dist(out[i], out[j]));
                    rep.eval(1);
                    if (d1 - m.abs() * d0).abs() > 1e-8 + 1e-14 * d0 {
                        rep.violation(&format!("not a similarity: distance between transformed points is not (1+s) times the original / {class}"), json!({"def": def, "p": same_epoch[i], "q": same_epoch[j], "distance_before": d0, "distance_after": d1, "scale": m}));
                        break;
                    }
                }
            }
        }
    }
    // 4. inverse undoes forward: exactly in exact mode (1e-9 relative to |x|), to second order in the angles otherwise
    if let Ok((n, back)) = apply_def(&def, Inv, &fwd.1) {
        for (x, b) in data.iter().zip(back.iter()) {
            let d = dist(*x, *b);
            let dt = if p.dynamic() { p.t_obs.unwrap_or(x[3]) - p.t_epoch } else { 0. };
            let norm = (x[0] * x[0] + x[1] * x[1] + x[2] * x[2]).sqrt().max(1.);
            let tol = if p.exact || !p.rotated() { 1e-9 + 1e-15 * norm } else { 1e-9 + 3. * p.angle_norm(dt).powi(2) * norm };
            if p.exact || !p.rotated() {
                w_inv = w_inv.max(d);
            }
            if !(d <= tol) || bits(x[3]) != bits(b[3]) {
                rep.violation(&format!("inverse does not undo forward / {class}"), json!({"def": def, "input": x, "back": b, "distance_m": d, "tolerance_m": tol}));
                break;
            }
        }
        if n != data.len() {
            rep.violation(&format!("inverse miscounts / {class}"), json!({"def": def, "count": n}));
        }
    }
    // 5. scalar, list and mixed spellings are interchangeable (bit-identical)
    for sp in [1u8, 2] {
        let d2 = p.def(sp);
        if d2 == def {
            continue;
        }
        rep.eval(1);
        match apply_def(&d2, Fwd, &data) {
            Ok((n, out)) if n == fwd.0 && out.iter().zip(fwd.1.iter()).all(|(a, b)| bits4(*a) == bits4(*b)) => {}
            other => rep.violation(
                &format!("scalar and list spellings of the parameters are not interchangeable / {class}"),
                json!({"scalar": def, "other": d2, "other_result": format!("{other:?}").chars().take(200).collect::<String>(), "scalar_first": fwd.1[0]}),
            ),
        }
    }
    // 6. one convention with rotations r equals the other with -r (small-angle); matrices are transposes (exact)
    if p.rotated() {
        let mut q = p.clone();
        q.pv = !p.pv;
        q.r = [-p.r[0], -p.r[1], -p.r[2]];
        q.dr = [-p.dr[0], -p.dr[1], -p.dr[2]];
        rep.eval(1);
        if !p.exact {
            match apply_def(&q.def(0), Fwd, &data) {
                Ok((_, out)) if out.iter().zip(fwd.1.iter()).all(|(a, b)| dist(*a, *b) <= 1e-8) => {}
                other => rep.violation(
                    &format!("position_vector with r does not equal coordinate_frame with -r / {class}"),
                    json!({"a": def, "b": q.def(0), "b_result": format!("{other:?}").chars().take(200).collect::<String>(), "a_first": fwd.1[0]}),
                ),
            }
        } else if !p.dynamic() && p.t == [0.; 3] && p.s == 0. {
            // pure rotation R: the other convention with the SAME angles is R transposed = R inverse
            let mut t = p.clone();
            t.pv = !p.pv;
            match apply_def(&t.def(0), Fwd, &fwd.1) {
                Ok((_, back)) if back.iter().zip(data.iter()).all(|(a, b)| dist(*a, *b) <= 1e-8 + 1e-15 * 1e7) => {}
                other => rep.violation(
                    &format!("exact rotation matrices of the two conventions are not transposes of each other / {class}"),
                    json!({"a": def, "b": t.def(0), "b_after_a": format!("{other:?}").chars().take(200).collect::<String>()}),
                ),
            }
        }
    }
    // 7. t_obs = tau is equivalent to giving every tuple the epoch tau
    if let (true, Some(tau)) = (p.dynamic(), p.t_obs) {
        let mut q = p.clone();
        q.t_obs = None;
        let at_tau: Vec<C4> = data.iter().map(|x| [x[0], x[1], x[2], tau]).collect();
        rep.eval(1);
        match apply_def(&q.def(0), Fwd, &at_tau) {
            Ok((_, out)) if out.iter().zip(fwd.1.iter()).all(|(a, b)| dist(*a, *b) <= 1e-8) => {}
            other => rep.violation(
                &format!("t_obs is not equivalent to giving every tuple that epoch / {class}"),
                json!({"with_t_obs": def, "without": q.def(0), "without_result_first": format!("{other:?}").chars().take(200).collect::<String>(), "with_first": fwd.1[0]}),
            ),
        }
    }
    outcomes.lock().unwrap().insert(hash_of(&fwd.1.iter().map(|c| bits4(*c)).collect::<Vec<_>>()));
    let mut w = worst.lock().unwrap();
    let a = w.entry("forward vs EPSG small-angle formula (m)".into()).or_insert(0.);
    *a = a.max(w_ref);
    let b = w.entry("inverse after forward, exact or unrotated (m)".into()).or_insert(0.);
    *b = b.max(w_inv);
}

fn molodensky(rep: &Report, tier: Tier, worst: &Mutex<BTreeMap<String, f64>>) {
    let step = tier.pick(15., 5.);
    let (e0, e1) = ("intl", "GRS80");
    let ell1 = ref_ellipsoid(e1).unwrap();
    for shift in [[-87., -96., -120.], [100., -100., 100.], [0., 0., 0.], [-200., 0., 0.], [0., 150., -150.]] {
        for (abridged, spelling) in [(false, 0), (true, 0), (false, 1), (false, 2), (false, 3), (true, 3), (false, 4), (false, 5), (false, 6), (false, 7), (true, 7)] {
            // the same pair of ellipsoids, spelled in every way the gamut allows
            let ell0 = ref_ellipsoid(e0).unwrap();
            let mut target = e1;
            let mut ell1 = ell1;
            let ellipsoids = match spelling {
                0 => format!("ellps_0={e0} ellps_1={e1}"),
                1 => format!("ellps={e0} ellps_1={e1}"),
                2 => format!("ellps_0={e0}"), // the target defaults to GRS80
                3 => format!("ellps={e0} da={:?} df={:?}", ell1.a - ell0.a, ell1.f - ell0.f),
                // 4-6: (part of) the ellipsoids given by the caller of a macro
                4 => format!("ellps_1={e1}"),
                5 => format!("ellps_0=$from ellps_1=$to({e1})"),
                6 => String::new(),
                // explicitly given differences win, also when they are zero: same ellipsoid on both sides
                _ => {
                    target = e0;
                    ell1 = ell0;
                    format!("ellps={e0} da=0 df=0")
                }
            };
            let body = format!("molodensky {ellipsoids} dx={} dy={} dz={}{}", shift[0], shift[1], shift[2], if abridged { " abridged" } else { "" });
            let (macros, mol) = match spelling {
                4 => (vec![("my:mol".to_string(), body)], format!("my:mol ellps_0={e0}")),
                5 => (vec![("my:mol".to_string(), body)], format!("my:mol from={e0}")),
                6 => (vec![("my:mol".to_string(), body), ("my:outer".to_string(), "my:mol ellps_1=$target".to_string())], format!("my:outer ellps_0={e0} target={e1}")),
                _ => (vec![], body),
            };
            let path = format!("cart ellps={e0} | helmert x={} y={} z={} | cart inv ellps={target}", shift[0], shift[1], shift[2]);
            let mut pts: Vec<C4> = Vec::new();
            for &lat in &lat_lattice(step, 85.) {
                for &lon in &dlon_lattice(step * 2., 180.) {
                    for h in [-10000., 0., 1000., 100000.] {
                        pts.push([lon.to_radians(), lat.to_radians(), h, 2020.]);
                    }
                }
            }
            let (a, b) = (apply_def_with(&macros, &mol, Fwd, &pts), apply_def(&path, Fwd, &pts));
            rep.eval(pts.len() as u64);
            let (Ok((_, a)), Ok((_, b))) = (a, b) else {
                rep.violation("molodensky or its cartesian counterpart fails", json!({"molodensky": mol, "macros": macros, "path": path}));
                continue;
            };
            let tol = if abridged { 5. } else { 0.5 };
            let mut w = 0f64;
            for ((x, ma), pb) in pts.iter().zip(a.iter()).zip(b.iter()) {
                let d = ell1.ground(ma[0], ma[1], pb[0], pb[1]).max((ma[2] - pb[2]).abs());
                w = w.max(d);
                if !(d <= tol) {
                    rep.violation(
                        &format!("molodensky differs from the cartesian three-parameter path by more than its published accuracy ({tol} m) / {}", if abridged { "abridged" } else { "full" }),
                        json!({"molodensky": mol, "macros": macros, "path": path, "input": x, "molodensky_result": ma, "path_result": pb, "distance_m": d}),
                    );
                    break;
                }
            }
            let mut wm = worst.lock().unwrap();
            let e = wm.entry(format!("molodensky {} vs cartesian path (m)", if abridged { "abridged" } else { "full" })).or_insert(0.);
            *e = e.max(w);
        }
    }
}

pub fn run(tier: Tier) -> Report {
    let rep = Report::new("C07", tier, "exploration");
    rep.rule("complete product of translation(3) x rotation(4 incl. a 30 degree exact one) x scale(3) x rate sets(2^3) x convention(2) x exact(2) x t_obs(2) parameter sets, each in 3 spellings, \
              applied to 27 cartesian points carrying 4 different epochs in one set, both directions; reference = EPSG small-angle 3x3 formula evaluated per tuple epoch in the harness; \
              metamorphic relations as listed in the property. distinct_nontrivial = distinct forward result sets");
    rep.assume("exact mode is judged by metamorphic relations (similarity, transpose, agreement with the small-angle formula to second order in the angles), not against a composition order the property does not state");
    let pts = points();
    let t0 = 2000.0;
    let epochs = [t0, t0 + 1., t0 + 10.5, t0 - 7.25];
    let translations = [[0., 0., 0.], [-87., -96., -120.], [1000., 0., -1000.]];
    let rotations = [[0., 0., 0.], [0.04, -0.03, 0.02], [10., -5., 3.], [108000., -36000., 72000.]];
    let scales = [0., -0.01, 100.];
    let mut sets: Vec<P> = Vec::new();
    for t in translations {
        for (ri, r) in rotations.iter().enumerate() {
            for s in scales {
                for rates in 0..8u8 {
                    for pv in [true, false] {
                        for exact in [false, true] {
                            for with_obs in [false, true] {
                                if ri == 3 && !exact {
                                    continue; // 30 degrees is only meaningful in exact mode
                                }
                                if *r == [0.; 3] && rates & 2 == 0 && (!pv || exact) {
                                    continue; // convention/exact are irrelevant without rotation
                                }
                                if rates == 0 && with_obs {
                                    continue;
                                }
                                if tier == Tier::Quick && rates != 0 && rates != 7 && (t != translations[1] || s != scales[1]) {
                                    continue;
                                }
                                sets.push(P {
                                    t,
                                    r: *r,
                                    s,
                                    dt: if rates & 1 != 0 { [0.01, -0.02, 0.03] } else { [0.; 3] },
                                    dr: if rates & 2 != 0 { [0.001, 0.002, -0.003] } else { [0.; 3] },
                                    ds: if rates & 4 != 0 { 0.5 } else { 0. },
                                    pv,
                                    exact,
                                    t_epoch: t0,
                                    t_obs: if with_obs { Some(t0 + 15.5) } else { None },
                                });
                            }
                        }
                    }
                }
            }
        }
    }
    rep.set("parameter_sets", json!(sets.len()));
    let worst = Mutex::new(BTreeMap::new());
    let outcomes = Mutex::new(HashSet::new());
    par_range(sets.len(), |i| check_param_set(&rep, &sets[i], &pts, &epochs, &worst, &outcomes));
    molodensky(&rep, tier, &worst);
    for p in sets.iter().step_by(sets.len() / 6 + 1) {
        rep.sample(json!({"definition": p.def(0), "list_spelling": p.def(1), "points": pts.len(), "epochs_in_one_set": epochs}));
    }
    rep.set("observed_maxima", json!(*worst.lock().unwrap()));
    let o = outcomes.into_inner().unwrap();
    rep.nontrivial_bulk(&o);
    rep.outcomes_bulk(&o);
    rep
}
