//! C09 — no definition string and no coordinate value can make the library panic or hang.
//! (1) grammar: every built-in name x every gamut key (hook H1) x ~35 adversarial spellings,
//!     all pairs of keys over a 6-value sub-alphabet, bare modifiers, empty/separator-only
//!     texts, names crossed with macro syntax, PROJ forms;
//! (2) byte level: for every catalogue definition every single deletion, duplication and
//!     replacement (17 characters incl. multi-byte and NUL) at every character offset;
//! (3) coordinates: every instantiable catalogue definition x both directions x ALL 4-tuples over a
//!     13-value alphabet (28561 tuples);
//! (4) the public functions of the ellipsoid, angular and tokenizer modules over the same alphabets.
//! Everything runs in worker processes (2 MiB stack, 4 GiB address space, watchdog).

use crate::catalog::*;
use crate::engine::*;
use crate::props::c19::V;
use geodesy::authoring::*;
use serde_json::{json, Value};
use std::collections::HashSet;

const SPELLINGS: [&str; 42] = [
    "", "-0", "1e400", "-1e400", "NaN", "inf", "1:2:3:4", "1:60:61W", "1°", "ø", "$", "$x", "$x(", "(", "(1", ")", ",", "1,,2", "1,2,3,4,5", "0", "5", "1.5", "-1", "9999999999999999999999", "true", "false", "foo", "@null", "@",
    "=", "nosuchellps", "0,0", "6378137,0", "1e-320", "4,3,2,1", "90",
    // pairs and triples of huge magnitudes (integer conversions saturate, sums and differences of them overflow)
    "1e30,-9e29", "9e18,-9e18", "-1e30,1e29", "3,-9e18", "9223372036854775807,-1", "1e30,1e30,-1e30",
];
const PAIR_VALUES: [&str; 6] = ["", "0", "-1", "NaN", "1e400", "ø"];
const REPLACE: [&str; 17] = ["|", "<", ">", ":", "=", "$", "(", ")", ",", "#", " ", "\n", "₀", "°", "\0", "-", "9"];

/// a valid value for a gamut key so that the OTHER keys of an operator are well-formed
fn valid_value(op: &str, key: &str) -> Option<&'static str> {
    Some(match (op, key) {
        (_, "ellps") | (_, "ellps_0") | (_, "ellps_1") => "GRS80",
        ("utm", "zone") | ("butm", "zone") => "32",
        ("adapt", "from") | ("adapt", "to") => "neuf_deg",
        ("gridshift", "grids") => "test.datum",
        ("deformation", "grids") => "test.deformation",
        ("deflection", "grids") => "test.geoid",
        ("deformation", "t_epoch") => "2000",
        ("permtide", "from") => "mean",
        ("permtide", "to") => "zero",
        ("omerc", "alpha") => "30",
        ("omerc", "gamma_c") => "30",
        ("omerc", "latc") => "55",
        ("omerc", "lonc") => "12",
        ("lcc", "lat_1") => "33",
        ("lcc", "lat_2") => "45",
        ("helmert", "convention") => "position_vector",
        ("helmert", "t_epoch") => "2000",
        ("axisswap", "order") => "2,1",
        ("unitconvert", _) => "m",
        _ => return None,
    })
}

fn required_flags(op: &str) -> &'static str {
    match op {
        "curvature" => "prime",
        "gravity" => "grs80",
        "latitude" => "geocentric",
        "stack" => "push=1",
        _ => "",
    }
}

fn grammar_cases() -> Vec<String> {
    let mut defs: Vec<String> = Vec::new();
    let ops = geodesy::verif::builtin_operators();
    for (name, gamut) in &ops {
        let keys: Vec<&str> = gamut
            .iter()
            .map(|p| match p {
                OpParameter::Flag { key } | OpParameter::Natural { key, .. } | OpParameter::Integer { key, .. } | OpParameter::Real { key, .. } | OpParameter::Series { key, .. } | OpParameter::Text { key, .. } | OpParameter::Texts { key, .. } => *key,
            })
            .collect();
        let base = |skip: &[&str]| -> String {
            let mut parts = vec![name.to_string()];
            let f = required_flags(name);
            if !f.is_empty() && !skip.iter().any(|s| f.starts_with(s)) {
                parts.push(f.to_string());
            }
            for k in &keys {
                if skip.contains(k) {
                    continue;
                }
                if let Some(v) = valid_value(name, k) {
                    parts.push(format!("{k}={v}"));
                }
            }
            parts.join(" ")
        };
        defs.push(base(&[]));
        defs.push(name.to_string());
        // the stack family is executed by the enclosing pipeline, not by the step itself: these
        // operators are also tried as steps of a pipeline that has something on the stack
        let in_pipeline = ["stack", "push", "pop"].contains(name);
        for k in &keys {
            for sp in SPELLINGS {
                defs.push(format!("{} {k}={sp}", base(&[k])));
                if in_pipeline {
                    let f = required_flags(name);
                    let own = if f.starts_with(k) { String::new() } else { format!(" {f}") };
                    defs.push(format!("stack push=1,2,3 | {name} {k}={sp} | addone"));
                    defs.push(format!("addone | {name}{own} {k}={sp}"));
                }
            }
            defs.push(format!("{} {k}", base(&[k])));
            defs.push(format!("{} {k} {k}={k}", base(&[k])));
        }
        if keys.len() <= 10 {
            for (i, a) in keys.iter().enumerate() {
                for b in keys.iter().skip(i + 1) {
                    for va in PAIR_VALUES {
                        for vb in PAIR_VALUES {
                            defs.push(format!("{} {a}={va} {b}={vb}", base(&[a, b])));
                        }
                    }
                }
            }
        }
        // the name in macro-ish, pipeline-ish and PROJ-ish positions
        for t in [
            format!("{name}:"), format!(":{name}"), format!("{name}:{name}"), format!("x:{name}"), format!("{name} | {name}"), format!("{name} inv"), format!("inv {name}"), format!("{name} inv inv omit_fwd omit_inv"),
            format!("proj={name}"), format!("+proj={name} +inv"), format!("proj=pipeline step proj={name} step inv proj={name}"), format!("proj=pipeline inv step proj={name} omit_fwd"),
            format!("{name} ${name}"), format!("{name} x=$y y=$x"), format!("{name} x=$x"), format!("{name}\n:{name}"), format!("{name} > {name} < {name}"),
        ] {
            defs.push(t);
        }
    }
    for t in [
        "", " ", "\n", "\t\r\n", "|", "||", "| |", "<", ">", "<>", ":", "::", "=", "==", "$", "$$", "#", "# only a comment", "inv", "inv inv", "omit_fwd", "omit_inv inv", "inv omit_fwd omit_inv", "inv | inv", "| inv", "inv=true",
        "omit_fwd=false", "=x", "x=", "x==y", "a:b:c", "a:b c:d", ":", "a: ", " :a", "\0", "ø", "ø:ø", "₀=1", "x₀=1 y₀", "proj", "proj=", "+proj", "proj=pipeline", "proj=pipeline step", "step", "proj=pipeline step step step",
        "init=epsg:4326", "proj=pipeline step init=a:b", "pipeline", "pipeline inv", "stack", "push", "pop", "push v_1 v_2 v_3 v_4 v_5", "stack push=1,2 pop=1", "stack roll=1e400,1", "stack roll=NaN,NaN", "stack unroll=9999999999999999999,1", "stack flip=-1",
        "stack push=99999999999999999999", "axisswap order=1e400", "axisswap order=NaN,NaN", "axisswap order=1,1,1,1,1,1,1,1", "adapt from=ø", "adapt from=neuf_ø", "adapt from=øøøø", "adapt from=neufneuf", "unitconvert xy_in=ø",
        "helmert translation=1", "helmert translation=1,2,3,4", "helmert rotation=NaN,NaN,NaN", "helmert convention=ø rx=1", "helmert t_epoch=NaN dx=1", "helmert x=1e400", "utm zone=0", "utm zone=61", "utm zone=-1", "utm zone=99999999999999999999",
        "lcc lat_1=90", "lcc lat_1=-90", "lcc lat_1=91 lat_2=-91", "lcc lat_1=0 lat_2=0", "lcc lat_1=45 lat_2=-45", "laea lat_0=91", "laea lat_0=NaN", "merc lat_ts=91", "merc lat_ts=90", "tmerc k_0=0", "tmerc k_0=-1 lat_0=1e308",
        "omerc alpha=90", "omerc alpha=0 latc=0", "omerc latc=90 alpha=45", "somerc lat_0=90", "somerc lat_0=0", "cart ellps=0,0", "cart ellps=1,1", "cart ellps=-1,1", "cart ellps=NaN,NaN", "cart ellps=1e400,0", "cart ellps=(6378137,298.25)",
        "cart ellps=(", "cart ellps=)", "cart ellps=,", "molodensky ellps_0=foo", "molodensky ellps_1=bar", "latitude", "latitude geocentric authalic", "curvature", "gravity", "gravity grs80 welmec", "geodesic ellps=foo",
        "permtide from=foo to=bar", "permtide from=mean", "gridshift", "gridshift grids=", "gridshift grids=,", "gridshift grids=@", "gridshift grids=@null,@null", "gridshift grids=nosuch.datum", "gridshift grids=/etc/passwd",
        "gridshift grids=test.datum padding=NaN", "deformation grids=test.datum t_epoch=2000", "deformation grids=test.deformation", "deflection grids=test.datum", "deflection grids=test.deformation",
        "x:y", "geo:in", "geo:in inv", "geo:in | geo:out | gis:in inv", "nosuch:macro x=1", "helmert:helmert",
        // self-referential macros (registered in every worker context)
        "self:same", "self:same inv", "| self:same", "addone | self:same | addone", "self:pipe", "addone | self:pipe | addone", "self:arg", "self:arg x=2", "self:arg x=1",
        "self:inv", "inv self:inv", "self:twice", "ping:a", "ping:b inv", "ping:a | ping:b", "self:same x=$y(1)",
    ] {
        defs.push(t.to_string());
    }
    // every stack instruction meeting a stack of 0..3 elements, in either direction: `push.. | ins` reaches it
    // forward, `ins | pop..` reaches it inverse (the worker applies every definition both ways)
    for ins in ["stack swap", "stack drop", "stack flip=1", "stack flip=1,2", "stack roll=2,1", "stack unroll=2,1", "stack roll=3,-1", "stack unroll=3,-2", "stack pop=1", "stack pop=1,2", "stack push=1", "pop v_1", "pop v_1 v_2", "push v_1"] {
        for depth in 0..4usize {
            let idx: Vec<String> = (1..=depth).map(|i| i.to_string()).collect();
            for inv in ["", " inv"] {
                if depth == 0 {
                    defs.push(format!("{ins}{inv} | addone"));
                    defs.push(format!("addone | {ins}{inv}"));
                } else {
                    defs.push(format!("stack push={} | {ins}{inv}", idx.join(",")));
                    defs.push(format!("{ins}{inv} | stack pop={}", idx.join(",")));
                }
            }
        }
    }
    defs.sort();
    defs.dedup();
    let mut cases = Vec::new();
    for d in defs {
        for ctx in ["minimal", "plain"] {
            cases.push(json!({"kind": "def", "ctx": ctx, "def": d}).to_string());
        }
    }
    cases
}

fn byte_level_cases(tier: Tier) -> Vec<String> {
    let mut cases = Vec::new();
    let mut seen = HashSet::new();
    let mut defs: Vec<String> = catalogue().iter().map(|e| e.def.to_string()).collect();
    defs.push("proj=pipeline ellps=intl step proj=cart step inv proj=utm zone=32 omit_fwd".to_string());
    defs.push("+proj=utm +zone=32 +a=6378137 +rf=298.25 +k=0.9996".to_string());
    defs.push("m:x a=$b(3) b=(4) | inv m:y".to_string());
    for def in defs {
        let chars: Vec<char> = def.chars().collect();
        let positions: Vec<usize> = match tier {
            Tier::Quick if chars.len() > 60 => (0..chars.len()).step_by(2).collect(),
            _ => (0..chars.len()).collect(),
        };
        for &i in &positions {
            let mut variants: Vec<String> = Vec::new();
            let del: String = chars.iter().enumerate().filter(|(k, _)| *k != i).map(|(_, c)| *c).collect();
            variants.push(del);
            let mut dup = chars.clone();
            dup.insert(i, chars[i]);
            variants.push(dup.iter().collect());
            for r in REPLACE {
                let mut v: String = chars[..i].iter().collect();
                v.push_str(r);
                v.extend(chars[i + 1..].iter());
                variants.push(v);
            }
            for v in variants {
                if seen.insert(v.clone()) {
                    cases.push(json!({"kind": "def", "ctx": "plain", "def": v}).to_string());
                }
            }
        }
    }
    // thorough: two simultaneous edits (every pair of positions x 5 structural characters each) of the shorter definitions
    if tier == Tier::Thorough {
        let two: [&str; 5] = ["|", "=", " ", "#", ":"];
        let mut short: Vec<String> = catalogue().iter().map(|e| e.def.to_string()).filter(|d| d.chars().count() <= 36).collect();
        short.extend(["m:x a=$b(3) b=(4) | inv m:y", "proj=utm zone=32 inv", "stack push=1,2 | stack roll=2,1"].iter().map(|s| s.to_string()));
        for def in short {
            let chars: Vec<char> = def.chars().collect();
            for i in 0..chars.len() {
                for j in i + 1..chars.len() {
                    for a in two {
                        for b in two {
                            let mut v: String = chars[..i].iter().collect();
                            v.push_str(a);
                            v.extend(chars[i + 1..j].iter());
                            v.push_str(b);
                            v.extend(chars[j + 1..].iter());
                            if seen.insert(v.clone()) {
                                cases.push(json!({"kind": "def", "ctx": "plain", "def": v}).to_string());
                            }
                        }
                    }
                }
            }
        }
    }
    cases
}

fn coordinate_cases() -> Vec<String> {
    let mut defs: Vec<String> = catalogue().iter().map(|e| e.def.to_string()).collect();
    for d in [
        "laea lat_0=0 lon_0=-70", "laea lat_0=-90", "lcc lat_1=-33 lat_2=-45 lat_0=-40", "lcc lat_1=57", "omerc variant latc=4 lonc=115 alpha=53.3 gamma_c=53.1 k_0=0.99984", "omerc latc=30 lonc=10 alpha=90 gamma_c=90",
        "tmerc", "btmerc", "merc", "utm zone=1 south", "butm zone=60 south", "cart ellps=sphere", "cart ellps=mprts inv", "helmert exact rotation=100000,200000,300000 convention=coordinate_frame",
        "helmert dx=1 t_epoch=2000 t_obs=2010", "molodensky ellps_0=intl ellps_1=GRS80 dx=-87 dy=-96 dz=-120 abridged", "geodesic", "geodesic reversible ellps=sphere", "curvature azimuthal", "curvature mean", "gravity welmec",
        "gravity cassinis zero-height", "permtide from=free to=mean", "latitude rectifying", "latitude authalic ellps=mprts", "dm", "dms", "adapt from=swdp_gon to=neuf_deg", "axisswap order=-4,3,-2,1",
        "stack push=1,2,3,4 | stack roll=4,2 | stack flip=1,2 | stack pop=4,3,2,1", "stack pop=1 | addone", "geo:in | utm zone=32 | neu:out", "gridshift grids=test.datum, @null", "gridshift grids=5458_with_subgrid.gsb",
        "deformation grids=test.deformation t_epoch=2000 raw", "deflection grids=test.geoid", "webmerc", "somerc lat_0=-30 lon_0=120",
    ] {
        defs.push(d.to_string());
    }
    defs.sort();
    defs.dedup();
    let mut cases = Vec::new();
    for d in defs {
        for dir in ["fwd", "inv"] {
            cases.push(json!({"kind": "coords", "def": d, "dir": dir}).to_string());
        }
    }
    cases
}

fn function_cases() -> Vec<String> {
    vec![json!({"kind": "functions", "part": "angular"}).to_string(), json!({"kind": "functions", "part": "tokenizer"}).to_string(), json!({"kind": "functions", "part": "ellipsoid"}).to_string(), json!({"kind": "functions", "part": "ellipsoid-named"}).to_string()]
}

fn all_tuples() -> Vec<Coor4D> {
    let n = V.len();
    (0..n * n * n * n)
        .map(|k| {
            let d = decode(k, &[n, n, n, n]);
            Coor4D([V[d[0]], V[d[1]], V[d[2]], V[d[3]]])
        })
        .collect()
}

fn special_strings() -> Vec<String> {
    let mut v: Vec<String> = SPELLINGS.iter().map(|s| s.to_string()).collect();
    for s in ["1:30:36N", "-0:30", "ø1", "1ø", "1:ø", "1e", "e1", "N", "W", "1W1", "٣", "１２", "\u{200b}", "1\u{0301}", "0x10", "1_000", "+", "-", ".", "..", "1.2.3", ":::", "1:::", "NaN:NaN", "inf:inf:inf", "1e308:1e308:1e308S", &"9".repeat(400), &"1:".repeat(200)] {
        v.push(s.to_string());
    }
    v
}

/// Worker subject
const SELF_REFERENTIAL_MACROS: [(&str, &str); 7] = [
    ("self:same", "self:same"),
    ("self:pipe", "addone | self:pipe"),
    ("self:arg", "self:arg x=1"),
    ("self:inv", "self:inv inv"),
    ("self:twice", "self:twice | self:twice"),
    ("ping:a", "ping:b"),
    ("ping:b", "ping:a | addone"),
];

pub fn worker_subject(case: &str) -> String {
    if let Ok(wd) = std::env::var("MC_WORKDIR") {
        let _ = std::env::set_current_dir(wd);
    }
    let Ok(v) = serde_json::from_str::<Value>(case) else { return "BADCASE".into() };
    match v["kind"].as_str().unwrap_or("") {
        "def" => {
            let def = v["def"].as_str().unwrap_or("");
            let probe = || vec![Coor4D([0.2, 0.95, 10., 2001.]), Coor4D([f64::NAN, 0., -0., f64::INFINITY]), Coor4D([1e308, -1e308, 5e-324, 0.]), Coor4D([3586469.6, 762327.6, 5201383.5, 2010.]), Coor4D([55., 12., 0., 0.])];
            let run = |ctx: &mut dyn Context| -> String {
                match ctx.op(def) {
                    Err(_) => "ERR".into(),
                    Ok(op) => {
                        let mut bad = false;
                        for dir in [Fwd, Inv] {
                            let mut d = probe();
                            if let Ok(n) = ctx.apply(op, dir, &mut d) {
                                bad |= n > d.len();
                            }
                            let mut e: Vec<Coor4D> = vec![];
                            let dir2 = Fwd;
                            if let Ok(n) = ctx.apply(op, dir2, &mut e) {
                                bad |= n > 0;
                            }
                        }
                        let _ = ctx.steps(op).map(|s| s.len());
                        let _ = ctx.params(op, 0);
                        let _ = ctx.params(op, 7);
                        if bad {
                            "COUNT".into()
                        } else {
                            "OK".into()
                        }
                    }
                }
            };
            // every context knows a few self-referential macros: instantiating them must end with an error
            // value, whatever the text of the invocation (identical at every level, or with arguments)
            let adversarial_macros = |ctx: &mut dyn Context| {
                for (name, body) in SELF_REFERENTIAL_MACROS {
                    ctx.register_resource(name, body);
                }
            };
            if v["ctx"] == "minimal" {
                let mut ctx = Minimal::new();
                adversarial_macros(&mut ctx);
                run(&mut ctx)
            } else {
                let mut ctx = Plain::new();
                adversarial_macros(&mut ctx);
                run(&mut ctx)
            }
        }
        "coords" => {
            let def = v["def"].as_str().unwrap_or("");
            let mut ctx = Plain::new();
            let Ok(op) = ctx.op(def) else { return "ERR".into() };
            let mut data = all_tuples();
            let n = data.len();
            let dir = if v["dir"] == "fwd" { Fwd } else { Inv };
            match ctx.apply(op, dir, &mut data) {
                Ok(c) if c > n => "COUNT".into(),
                Ok(c) => format!("OK {c}"),
                Err(_) => "ERR".into(),
            }
        }
        "functions" => {
            use angular::*;
            let strings = special_strings();
            match v["part"].as_str().unwrap_or("") {
                "angular" => {
                    let mut acc = 0f64;
                    for s in &strings {
                        acc += parse_sexagesimal(s).abs().min(1.);
                    }
                    for &x in V.iter().chain([1e300, -720., 720., 359.999999, 5530.15, -553036.5, 1e15, 4294967296.5, -4294967296.5, 1e19].iter()) {
                        for f in [iso_dm_to_dd, dd_to_iso_dm, iso_dms_to_dd, dd_to_iso_dms, normalize_symmetric, normalize_positive] {
                            acc += f(x).abs().min(1.);
                        }
                        for d in [i32::MIN, -1, 0, 1, i32::MAX] {
                            acc += dm_to_dd(d, x).abs().min(1.);
                            for m in [0u16, 59, 60, u16::MAX] {
                                acc += dms_to_dd(d, m, x).abs().min(1.);
                            }
                        }
                        for c in [Coor4D([x, -x, x, x])] {
                            acc += c.to_degrees()[0].abs().min(1.) + c.to_radians()[0].abs().min(1.) + c.to_arcsec()[0].abs().min(1.) + c.to_geo()[0].abs().min(1.);
                        }
                        let _ = Coor4D::iso_dm(x, x, x, x);
                        let _ = Coor4D::iso_dms(x, -x, x, x);
                        let _ = Coor2D::iso_dm(x, x);
                        let _ = Coor32::iso_dms(x, x);
                    }
                    format!("OK {}", acc.is_nan())
                }
                "tokenizer" => {
                    let mut n = 0usize;
                    let mut texts: Vec<String> = strings.clone();
                    for a in ["a", "|", "<", ">", ":", "=", "$", "(", "#", "\n", "\r", "\n:", "inv", "omit_fwd", "ø", "₀=", "proj=", "+", "step", " "] {
                        for b in ["a", "|", "<", ">", ":", "=", "$", "(", "#", "\n", "\r", "\n:", "inv", "omit_fwd", "ø", "₀=", "proj=", "+", "step", " "] {
                            for c in ["", "x=1", "|", "inv", "proj=pipeline", "\n"] {
                                texts.push(format!("{a}{b}{c}"));
                                texts.push(format!("{a} {b} {c}"));
                            }
                        }
                    }
                    for t in &texts {
                        n += t.split_into_steps().len();
                        n += t.split_into_parameters().len();
                        n += t.normalize().len();
                        n += t.is_pipeline() as usize + t.is_resource_name() as usize;
                        n += t.operator_name().len();
                        n += parse_proj(t).map(|s| s.len()).unwrap_or(0);
                    }
                    format!("OK {n}")
                }
                "ellipsoid-named" => {
                    let mut n = 0;
                    for s in &strings {
                        n += Ellipsoid::named(s).is_ok() as usize;
                        n += Ellipsoid::named(&format!("{s},{s}")).is_ok() as usize;
                        n += Ellipsoid::named(&format!("({s})")).is_ok() as usize;
                        n += TriaxialEllipsoid::named(s).is_ok() as usize;
                    }
                    for e in geodesy::verif::ellipsoid_table() {
                        n += Ellipsoid::named(e[0]).is_ok() as usize;
                        n += TriaxialEllipsoid::named(e[0]).is_ok() as usize;
                    }
                    format!("OK {n}")
                }
                _ => {
                    let mut acc = 0usize;
                    let shapes = [(6378137., 1. / 298.257), (6378137., 0.), (1., 0.5), (0., 0.), (-1., 2.), (f64::NAN, f64::NAN), (f64::INFINITY, 1.), (1e308, 1e-308), (6378137., 1.), (6378137., -0.1)];
                    for (a, f) in shapes {
                        let e = Ellipsoid::new(a, f);
                        let _ = (e.semiminor_axis(), e.second_flattening(), e.third_flattening(), e.aspect_ratio(), e.linear_eccentricity(), e.eccentricity(), e.second_eccentricity(), e.polar_radius_of_curvature(), e.rectifying_radius(), e.rectifying_radius_bowring(), e.meridian_quadrant(), e.normalized_meridian_arc_unit());
                        let (rc, cc, ac) = (e.coefficients_for_rectifying_latitude_computations(), e.coefficients_for_conformal_latitude_computations(), e.coefficients_for_authalic_latitude_computations());
                        for &x in V.iter() {
                            let _ = (e.prime_vertical_radius_of_curvature(x), e.meridian_radius_of_curvature(x));
                            let _ = (e.latitude_geographic_to_geocentric(x), e.latitude_geocentric_to_geographic(x), e.latitude_geographic_to_reduced(x), e.latitude_reduced_to_geographic(x));
                            let _ = (e.latitude_geographic_to_isometric(x), e.latitude_isometric_to_geographic(x));
                            let _ = (e.latitude_geographic_to_rectifying(x, &rc), e.latitude_rectifying_to_geographic(x, &rc), e.latitude_geographic_to_conformal(x, &cc), e.latitude_conformal_to_geographic(x, &cc));
                            let _ = (e.latitude_geographic_to_authalic(x, &ac), e.latitude_authalic_to_geographic(x, &ac));
                            let _ = (e.meridian_latitude_to_distance(x), e.meridian_distance_to_latitude(x));
                            let _ = (e.somigliana_gravity(x, None, None), e.somigliana_gravity(x, Some(x), Some(-x)), e.cassinis_gravity_1930(x), e.jeffreys_gravity_1948(x), e.grs67_gravity(x), e.grs80_gravity(x));
                            for &y in V.iter() {
                                let _ = (e.cassinis_height_correction(x, y), e.grs67_height_correction(x, y), e.welmec(x, y));
                                let p = Coor4D([x, y, y, x]);
                                let q = Coor4D([y, x, 0., 0.]);
                                let c = e.cartesian(&p);
                                let g = e.geographic(&p);
                                let _ = (c, g);
                                let f = e.geodesic_fwd(&p, x, y);
                                let i = e.geodesic_inv(&p, &q);
                                let d = e.distance(&p, &q);
                                acc += (f[3] > 0.) as usize + (i[3] > 0.) as usize + d.is_nan() as usize;
                            }
                        }
                    }
                    format!("OK {acc}")
                }
            }
        }
        _ => "BADCASE".into(),
    }
}

fn def_class(def: &str) -> String {
    // operator name (first token that is not a modifier) for the violation key
    let t = def.split(|c: char| c.is_whitespace() || c == '|').find(|t| !t.is_empty() && !["inv", "omit_fwd", "omit_inv"].contains(t)).unwrap_or("");
    t.chars().take(16).collect()
}

fn judge(rep: &Report, label: &str, cases: &[String], results: &[WorkerOutcome], outcomes: &mut HashSet<u64>, nontrivial: &mut HashSet<u64>) {
    for (case, res) in cases.iter().zip(results.iter()) {
        rep.eval(1);
        let v: Value = serde_json::from_str(case).unwrap();
        let def = v["def"].as_str().unwrap_or("").to_string();
        let what = if v["kind"] == "functions" { v["part"].as_str().unwrap_or("").to_string() } else { def_class(&def) };
        match res {
            WorkerOutcome::Skipped => rep.not_exhaustive("more than 200 cases of a worker space hung: the rest of that space was not run"),
            WorkerOutcome::Answer(a) if a == "ERR" || a.starts_with("OK") => {
                outcomes.insert(hash_of(a));
                if a.starts_with("OK") {
                    nontrivial.insert(hash_of(case));
                }
            }
            WorkerOutcome::Answer(a) if a == "COUNT" => rep.violation(&format!("apply reports more successes than tuples / {label} / {what}"), json!({"kind": label, "case": v})),
            WorkerOutcome::Answer(a) if a.starts_with("PANIC") => {
                rep.violation(&format!("panic: {} / {label}", panic_class(&a[6..])), json!({"kind": label, "case": v, "panic": &a[6..]}));
            }
            WorkerOutcome::Answer(a) => rep.machinery_error(format!("unexpected worker answer {a} for {case}")),
            WorkerOutcome::Died(s) => rep.violation(&format!("process killed ({s}) / {label} / {what}"), json!({"kind": label, "case": v})),
            WorkerOutcome::Timeout => rep.violation(&format!("does not return (watchdog) / {label} / {what}"), json!({"kind": label, "case": v})),
        }
    }
}

pub fn run(tier: Tier) -> Report {
    let rep = Report::new("C09", tier, "fault_enumeration");
    rep.rule("(1) every built-in name x every gamut key x 36 adversarial spellings, all key pairs over 6 values, names in macro/pipeline/PROJ positions, ~170 hand-listed degenerate texts, through Minimal \
              and Plain; (2) every single deletion, duplication and replacement (17 characters) at every character offset of every catalogue definition; (3) every instantiable definition x both \
              directions x all 13^4 tuples of special values; (4) public ellipsoid/angular/tokenizer functions over the same alphabets. Non-trivial = case that instantiates; distinct = distinct answers");
    rep.assume("verdict per case comes from a worker process: answer, PANIC (caught), death by signal (stack overflow, abort, OOM under a 4 GiB cap) or no answer within 10 s (re-run alone with 60 s)");
    let wd = crate::util::enter_private_workdir();
    install_grids(&wd);
    std::env::set_var("MC_WORKDIR", &wd);
    let mut outcomes = HashSet::new();
    let mut nontrivial = HashSet::new();
    let sets: Vec<(&str, Vec<String>)> = vec![("grammar", grammar_cases()), ("byte-level", byte_level_cases(tier)), ("coordinates", coordinate_cases()), ("functions", function_cases())];
    for (label, cases) in sets {
        let results = run_in_workers("c09", &cases, 10);
        judge(&rep, label, &cases, &results, &mut outcomes, &mut nontrivial);
        rep.add_to("case_sets", json!({"set": label, "cases": cases.len()}));
        rep.sample(json!({"set": label, "first": serde_json::from_str::<Value>(&cases[0]).unwrap(), "middle": serde_json::from_str::<Value>(&cases[cases.len() / 2]).unwrap()}));
    }
    rep.nontrivial_bulk(&nontrivial);
    rep.outcomes_bulk(&outcomes);
    crate::util::leave_private_workdir(&wd);
    rep
}

pub fn replay(case: &Value) -> Result<String, String> {
    let wd = crate::util::enter_private_workdir();
    install_grids(&wd);
    std::env::set_var("MC_WORKDIR", &wd);
    let r = match &run_in_workers("c09", &[case["case"].to_string()], 60)[0] {
        WorkerOutcome::Answer(a) if a == "ERR" || a.starts_with("OK") => Ok(a.clone()),
        other => Err(format!("{other:?}")),
    };
    crate::util::leave_private_workdir(&wd);
    r
}
