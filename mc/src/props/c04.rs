//! C04 — a macro invocation means its expansion, and macro resolution always terminates.
//!
//! (1) binding: every combination of body shape x binding form x parameter name x caller
//!     argument set x inv placement x stand-alone/step; (2) nesting: every chain of depth 1..3
//!     over per-level (name, forwarding form) plus depth sweeps to 50; (3) resource graphs: every
//!     assignment of bodies (sequences of length 1..2 over {addone, g:0, g:1, g:2}) to three
//!     macro names x 3 entry points, and rings of length 1..50 — in worker processes with a
//!     watchdog, on a 2 MiB stack.
//! Oracle: a reference expander (environment-passing substitution semantics transcribed from the
//! property statement and Rumination 009) producing a tree of macro-free elementary steps, which
//! is executed by composing stand-alone instantiations.

use crate::engine::*;
use crate::util::*;
use geodesy::authoring::*;
use serde_json::{json, Value};
use std::collections::{BTreeMap, HashMap, HashSet};
use std::sync::Mutex;

// ----- Syntax trees of macro bodies ------------------------------------------------------------

#[derive(Clone, Debug, PartialEq, Eq, Hash)]
pub enum Bind {
    Lit(String),
    Ref(String),
    RefDef(String, String),
    Def(String),
}

impl Bind {
    fn text(&self) -> String {
        match self {
            Bind::Lit(v) => v.clone(),
            Bind::Ref(n) => format!("${n}"),
            Bind::RefDef(n, d) => format!("${n}({d})"),
            Bind::Def(d) => format!("({d})"),
        }
    }
}

#[derive(Clone, Debug, PartialEq, Eq, Hash)]
pub struct SStep {
    pub name: String, // operator or macro name
    pub args: Vec<(String, Bind)>,
    pub inv: u8, // 0 none, 1 suffix, 2 prefix, 3 infix
    /// directional modifier of the step: 0 none, 1 omit_fwd, 2 omit_inv
    pub omit: u8,
}

impl SStep {
    pub fn new(name: &str, args: &[(&str, Bind)]) -> SStep {
        SStep {
            name: name.to_string(),
            args: args.iter().map(|(k, b)| (k.to_string(), b.clone())).collect(),
            inv: 0,
            omit: 0,
        }
    }
    pub fn text(&self) -> String {
        let mut parts: Vec<String> = Vec::new();
        if self.inv == 2 {
            parts.push("inv".into());
        }
        parts.push(self.name.clone());
        if self.inv == 3 {
            parts.push("inv".into());
        }
        for (k, b) in &self.args {
            parts.push(format!("{k}={}", b.text()));
        }
        if self.inv == 1 {
            parts.push("inv".into());
        }
        match self.omit {
            1 => parts.push("omit_fwd".into()),
            2 => parts.push("omit_inv".into()),
            _ => {}
        }
        parts.join(" ")
    }
}

pub type Body = Vec<SStep>;
pub fn body_text(b: &Body) -> String {
    b.iter().map(|s| s.text()).collect::<Vec<_>>().join(" | ")
}

// ----- Reference expander ----------------------------------------------------------------------

#[derive(Clone, Debug)]
pub enum Node {
    Elem(String),
    Pipe(Vec<(Node, bool, u8)>), // (node, inverted, omitted: 0 never, 1 forward, 2 inverse)
}

type Env = BTreeMap<String, String>;

fn resolve(key: &str, b: &Bind, env: &Env) -> Result<String, String> {
    match b {
        Bind::Lit(v) => Ok(v.clone()),
        Bind::Ref(n) => env.get(n).cloned().ok_or(format!("'{n}' not given by the caller")),
        Bind::RefDef(n, d) => Ok(env.get(n).cloned().unwrap_or(d.clone())),
        Bind::Def(d) => Ok(env.get(key).cloned().unwrap_or(d.clone())),
    }
}

/// Expand one step under environment `env` (the caller's arguments, visible to every step)
pub fn expand_step(macros: &BTreeMap<String, Body>, st: &SStep, env: &Env, depth: usize) -> Result<(Node, bool, u8), String> {
    if depth > 200 {
        return Err("cycle".into());
    }
    let mut local = Env::new();
    for (k, b) in &st.args {
        local.insert(k.clone(), resolve(k, b, env)?);
    }
    if let Some(body) = macros.get(&st.name) {
        // nested invocation: the inner environment is the outer one overlaid with the resolved arguments
        let mut inner = env.clone();
        inner.extend(local);
        let node = expand_body(macros, body, &inner, depth + 1)?;
        return Ok((node, st.inv != 0, st.omit));
    }
    // elementary: caller arguments are visible, step-local values win
    let mut all = env.clone();
    all.extend(local);
    let mut text = st.name.clone();
    for (k, v) in &all {
        text.push_str(&format!(" {k}={v}"));
    }
    Ok((Node::Elem(text), st.inv != 0, st.omit))
}

pub fn expand_body(macros: &BTreeMap<String, Body>, body: &Body, env: &Env, depth: usize) -> Result<Node, String> {
    if body.len() == 1 {
        // (a single-step body is that step, its directional modifier included)
        return Ok(Node::Pipe(vec![expand_step(macros, &body[0], env, depth)?]));
    }
    let mut steps = Vec::new();
    for st in body {
        steps.push(expand_step(macros, st, env, depth)?);
    }
    Ok(Node::Pipe(steps))
}

pub struct Executor {
    pub ctx: Minimal,
    pub cache: HashMap<String, Option<OpHandle>>,
}

impl Executor {
    pub fn new() -> Executor {
        Executor {
            ctx: Minimal::default(),
            cache: HashMap::new(),
        }
    }
    fn handle(&mut self, text: &str) -> Option<OpHandle> {
        if let Some(h) = self.cache.get(text) {
            return *h;
        }
        let h = self.ctx.op(text).ok();
        self.cache.insert(text.to_string(), h);
        h
    }
    /// false if some elementary step cannot be instantiated stand-alone
    pub fn prepare(&mut self, node: &Node) -> bool {
        match node {
            Node::Elem(t) => self.handle(t).is_some(),
            Node::Pipe(steps) => steps.iter().all(|(n, _, _)| self.prepare(n)),
        }
    }
    pub fn exec(&mut self, node: &Node, fwd: bool, data: &mut Vec<Coor4D>) -> usize {
        match node {
            Node::Elem(t) => {
                let h = self.handle(t).unwrap();
                self.ctx.apply(h, if fwd { Fwd } else { Inv }, data).unwrap()
            }
            Node::Pipe(steps) => {
                let mut n = usize::MAX;
                let order: Vec<&(Node, bool, u8)> = if fwd { steps.iter().collect() } else { steps.iter().rev().collect() };
                for (node, inv, omit) in order {
                    if (fwd && *omit == 1) || (!fwd && *omit == 2) {
                        continue;
                    }
                    n = n.min(self.exec(node, fwd != *inv, data));
                }
                if n == usize::MAX {
                    data.len()
                } else {
                    n
                }
            }
        }
    }
}

const PROBE: [C4; 2] = [[0.1875, 0.9375, 100.5, 2001.25], [-4.5, 7.25, -12.75, 1995.5]];

/// One case: macro definitions + a top-level definition (a body, i.e. possibly a pipeline)
#[derive(Clone, Debug)]
pub struct Case {
    pub macros: BTreeMap<String, Body>,
    pub top: Body,
}

impl Case {
    pub fn describe(&self) -> Value {
        json!({
            "resources": self.macros.iter().map(|(k, b)| json!([k, body_text(b)])).collect::<Vec<_>>(),
            "definition": body_text(&self.top),
        })
    }
}

/// Ok(outcome hash) or Err((clause, detail))
pub fn check_case(ex: &mut Executor, case: &Case) -> Result<u64, (String, Value)> {
    let def = body_text(&case.top);
    let mut ctx = Minimal::default();
    for (name, body) in &case.macros {
        ctx.register_resource(name, &body_text(body));
    }
    let expected = expand_body(&case.macros, &case.top, &Env::new(), 0);
    let expected = match expected {
        Ok(node) => {
            if ex.prepare(&node) {
                Ok(node)
            } else {
                Err("an elementary step of the expansion is not instantiable".to_string())
            }
        }
        Err(e) => Err(e),
    };
    let got = catch(|| ctx.op(&def));
    let op = match (got, &expected) {
        (Err(p), _) => {
            return Err((format!("panic at instantiation: {}", panic_class(&p)), json!({"case": case.describe(), "panic": p})))
        }
        (Ok(Err(_)), Err(_)) => return Ok(1),
        (Ok(Err(e)), Ok(_)) => {
            return Err((
                "invocation rejected although its expansion is valid".into(),
                json!({"case": case.describe(), "error": e.to_string(), "expansion": format!("{:?}", expected.as_ref().unwrap())}),
            ))
        }
        (Ok(Ok(_)), Err(why)) => {
            return Err((
                "invocation accepted although its expansion is an error".into(),
                json!({"case": case.describe(), "expansion_error": why}),
            ))
        }
        (Ok(Ok(op)), Ok(_)) => op,
    };
    let node = expected.unwrap();
    let mut h = 0u64;
    for fwd in [true, false] {
        let mut exp = to_set(&PROBE);
        let en = ex.exec(&node, fwd, &mut exp);
        let mut got = to_set(&PROBE);
        let gn = match catch(|| ctx.apply(op, if fwd { Fwd } else { Inv }, &mut got)) {
            Ok(Ok(n)) => n,
            Ok(Err(e)) => return Err(("apply returned an error".into(), json!({"case": case.describe(), "error": e.to_string()}))),
            Err(p) => return Err((format!("panic in apply: {}", panic_class(&p)), json!({"case": case.describe(), "panic": p}))),
        };
        let (e4, g4) = (from_set(&exp), from_set(&got));
        h = hash_of(&(h, gn, g4.iter().map(|c| bits4(*c)).collect::<Vec<_>>()));
        if !same_bits(&e4, &g4) || en != gn {
            return Err((
                "invocation behaves differently from its expansion".into(),
                json!({"case": case.describe(), "direction": if fwd {"fwd"} else {"inv"}, "expansion": format!("{node:?}"),
                       "expected": format!("{en} {e4:?}"), "observed": format!("{gn} {g4:?}")}),
            ));
        }
    }
    Ok(h)
}

// ----- (1) binding space -------------------------------------------------------------------------

fn binding_cases() -> Vec<(String, Case)> {
    let names = ["a", "m", "x", "z", "d₁"]; // (a subscript digit is an index: d₁ is d_1, as a key and when looked up)
    let mut out = Vec::new();
    for body_shape in 0..5 {
        for n in names {
            let forms: Vec<Option<Bind>> = vec![
                None,
                Some(Bind::Lit("2".into())),
                Some(Bind::Ref(n.into())),
                Some(Bind::RefDef(n.into(), "7".into())),
                Some(Bind::Def("7".into())),
            ];
            for (fi, form) in forms.iter().enumerate() {
                // caller arguments: every subset of {n=5, x=9, q=11}
                for subset in 0..8u8 {
                    for inv in 0..4u8 {
                        for as_step in [false, true] {
                            let mut hargs: Vec<(&str, Bind)> = Vec::new();
                            if let Some(f) = form {
                                hargs.push(("x", f.clone()));
                            }
                            let h = SStep::new("helmert", &hargs);
                            let body: Body = match body_shape {
                                0 => vec![h],
                                // a single-step body left out in one direction: under an inverted invocation that is the other one
                                3 | 4 => {
                                    let mut h3 = h.clone();
                                    h3.omit = body_shape as u8 - 2;
                                    vec![h3]
                                }
                                1 => vec![SStep::new("addone", &[]), h, SStep::new("addone", &[])],
                                _ => {
                                    // a second key bound to a literal in the same step, and a second step using the same name
                                    let mut h2 = h.clone();
                                    h2.args.push(("y".into(), Bind::Lit("4".into())));
                                    vec![h2, SStep::new("helmert", &[("z", Bind::RefDef(n.into(), "1".into()))])]
                                }
                            };
                            let mut macros = BTreeMap::new();
                            macros.insert("m:x".to_string(), body);
                            let mut cargs: Vec<(String, Bind)> = Vec::new();
                            if subset & 1 != 0 {
                                cargs.push((n.to_string(), Bind::Lit("5".into())));
                            }
                            if subset & 2 != 0 && n != "x" {
                                cargs.push(("x".to_string(), Bind::Lit("9".into())));
                            }
                            if subset & 4 != 0 {
                                cargs.push(("q".to_string(), Bind::Lit("11".into())));
                            }
                            if n == "x" && subset & 2 != 0 && subset & 1 == 0 {
                                continue; // duplicate of the subset with bit 0
                            }
                            let mut call = SStep { name: "m:x".into(), args: cargs, inv, omit: 0 };
                            if inv == 3 && call.args.is_empty() {
                                call.inv = 1; // infix == suffix without arguments
                                if inv == 3 {
                                    continue;
                                }
                            }
                            let top: Body = if as_step {
                                vec![SStep::new("addone", &[]), call, SStep::new("helmert", &[("y", Bind::Lit("3".into()))])]
                            } else {
                                vec![call]
                            };
                            let label = format!("binding/shape{body_shape}/name={n}/form{fi}");
                            out.push((label, Case { macros, top }));
                        }
                    }
                }
            }
        }
    }
    out
}

// ----- (1b) sibling arguments --------------------------------------------------------------------

/// Two arguments of ONE step (an elementary step of a macro body, or a nested invocation) whose
/// bindings refer to each other's names: `key=$name` must take the CALLER's value for `name`, never
/// the value a sibling argument of the same step binds to that name — whichever way the two names sort.
/// Complete product: 7 forms x 7 forms x every subset of caller arguments {k1, k2, w} x 2 levels
/// x 2 name pairs (in both lexical orders) x stand-alone/step.
fn sibling_cases() -> Vec<(String, Case)> {
    let mut out = Vec::new();
    for level in 0..4 {
        // level 0: m:x = helmert <k1>=.. <k2>=..          (k1, k2 are helmert's own keys)
        // level 1: m:x = i:pq <k1>=.. <k2>=.. ; i:pq = helmert x=$<k1>(0) y=$<k2>(0)
        // level 2: m:x = addone | i:pq <k1>=.. <k2>=..    (the nested invocation is a STEP of a pipeline body)
        // level 3: i:pq <k1>=.. <k2>=.. at top level (no caller: every look-up is unresolved, defaults apply)
        let pairs: [(&str, &str); 2] = if level == 0 { [("x", "y"), ("y", "x")] } else { [("p", "q"), ("q", "p")] };
        for (k1, k2) in pairs {
            let forms = |_own: &str| -> Vec<Bind> {
                vec![
                    Bind::Lit("5".into()),
                    Bind::Ref(k1.into()),
                    Bind::Ref(k2.into()),
                    Bind::Ref("w".into()),
                    Bind::RefDef(k1.into(), "7".into()),
                    Bind::RefDef(k2.into(), "7".into()),
                    Bind::Def("8".into()),
                ]
            };
            for (i1, f1) in forms(k1).iter().enumerate() {
                for (i2, f2) in forms(k2).iter().enumerate() {
                    for subset in 0..8u8 {
                        for as_step in [false, true] {
                            let mut macros = BTreeMap::new();
                            let args = [(k1, f1.clone()), (k2, f2.clone())];
                            if level == 0 {
                                macros.insert("m:x".to_string(), vec![SStep::new("helmert", &args)]);
                            } else {
                                if level == 1 {
                                    macros.insert("m:x".to_string(), vec![SStep::new("i:pq", &args)]);
                                } else if level == 2 {
                                    macros.insert("m:x".to_string(), vec![SStep::new("addone", &[]), SStep::new("i:pq", &args)]);
                                }
                                macros.insert(
                                    "i:pq".to_string(),
                                    vec![SStep::new("helmert", &[("x", Bind::RefDef(k1.into(), "0".into())), ("y", Bind::RefDef(k2.into(), "0".into()))])],
                                );
                            }
                            let mut cargs: Vec<(String, Bind)> = Vec::new();
                            if subset & 1 != 0 {
                                cargs.push((k1.to_string(), Bind::Lit("1".into())));
                            }
                            if subset & 2 != 0 {
                                cargs.push((k2.to_string(), Bind::Lit("2".into())));
                            }
                            if subset & 4 != 0 {
                                cargs.push(("w".to_string(), Bind::Lit("3".into())));
                            }
                            let call = if level == 3 {
                                if subset != 0 {
                                    continue; // there is no caller at top level
                                }
                                SStep::new("i:pq", &args)
                            } else {
                                SStep { name: "m:x".into(), args: cargs, inv: 0, omit: 0 }
                            };
                            let top: Body = if as_step { vec![SStep::new("addone", &[]), call] } else { vec![call] };
                            let cross = matches!((i1, i2), (2, _) | (5, _) | (_, 1) | (_, 4));
                            let label = format!("sibling/level{level}/{}", if cross { "cross reference" } else { "no cross reference" });
                            out.push((label, Case { macros, top }));
                        }
                    }
                }
            }
        }
    }
    out
}

// ----- (2) nesting chains ------------------------------------------------------------------------

/// Per level: the parameter name used by that level, and how the level forwards to the next
#[derive(Clone, Copy, Debug, PartialEq)]
enum Fwding {
    Ref,     // next p=$prev
    RefDef,  // next p=$prev(7)
    Lit,     // next p=3
    Implicit // no argument: relies on visibility of the caller's arguments
}

fn chain_case(names: &[&str], fw: &[Fwding], given: bool, with_pipe: bool, inv_levels: u8) -> Case {
    // macros c:0 .. c:(d-1); c:k's parameter is names[k]; c:k invokes c:k+1 binding names[k+1]
    let d = names.len();
    let mut macros = BTreeMap::new();
    for k in 0..d {
        let last = k == d - 1;
        let step = if last {
            SStep::new("helmert", &[("x", Bind::RefDef(names[k].into(), "1".into()))])
        } else {
            let arg: Vec<(&str, Bind)> = match fw[k] {
                Fwding::Ref => vec![(names[k + 1], Bind::Ref(names[k].into()))],
                Fwding::RefDef => vec![(names[k + 1], Bind::RefDef(names[k].into(), "7".into()))],
                Fwding::Lit => vec![(names[k + 1], Bind::Lit("3".into()))],
                Fwding::Implicit => vec![],
            };
            let mut s = SStep::new(&format!("c:{}", k + 1), &arg);
            if inv_levels & (1 << k) != 0 {
                s.inv = 1;
            }
            s
        };
        let body = if with_pipe { vec![SStep::new("addone", &[]), step] } else { vec![step] };
        macros.insert(format!("c:{k}"), body);
    }
    let cargs: Vec<(&str, Bind)> = if given { vec![(names[0], Bind::Lit("5".into()))] } else { vec![] };
    Case {
        macros,
        top: vec![SStep::new("c:0", &cargs)],
    }
}

fn nesting_cases(max_depth: usize) -> Vec<(String, Case)> {
    let names = ["a", "m", "z"];
    let fws = [Fwding::Ref, Fwding::RefDef, Fwding::Lit, Fwding::Implicit];
    let mut out = Vec::new();
    for d in 1..=max_depth {
        let nn = names.len().pow(d as u32);
        let nf = fws.len().pow((d - 1) as u32);
        for ni in 0..nn {
            let nidx = decode(ni, &vec![names.len(); d]);
            let nm: Vec<&str> = nidx.iter().map(|&i| names[i]).collect();
            for fi in 0..nf {
                let fidx = decode(fi, &vec![fws.len(); d - 1]);
                let fw: Vec<Fwding> = fidx.iter().map(|&i| fws[i]).collect();
                for given in [false, true] {
                    for with_pipe in [false, true] {
                        for inv_levels in 0..(1u8 << (d - 1)).min(4) {
                            out.push((format!("nesting/depth{d}"), chain_case(&nm, &fw, given, with_pipe, inv_levels)));
                        }
                    }
                }
            }
        }
    }
    out
}

// ----- (3) resource graphs and depth sweeps, in worker processes -----------------------------------

/// Worker subject: case = JSON {"resources": [[name, def]..], "definition": text}
/// answer: "ERR" | "OK <count> <x0 bits>" (forward application to a single tuple)
pub fn worker_subject(case: &str) -> String {
    let Ok(v) = serde_json::from_str::<Value>(case) else {
        return "BADCASE".into();
    };
    let mut ctx = Minimal::default();
    for r in v["resources"].as_array().cloned().unwrap_or_default() {
        ctx.register_resource(r[0].as_str().unwrap_or(""), r[1].as_str().unwrap_or(""));
    }
    match ctx.op(v["definition"].as_str().unwrap_or("")) {
        Err(e) => format!("ERR {}", e.to_string().replace('\n', " ")),
        Ok(op) => {
            let mut data = vec![Coor4D([0., 0., 0., 0.])];
            let n = ctx.apply(op, Fwd, &mut data).unwrap_or(usize::MAX);
            format!("OK {} {}", n, data[0][0])
        }
    }
}

/// Expected result for an addone-only graph: Some(k) = adds k; None = a cycle is reachable
fn graph_expect(bodies: &[Vec<usize>], entry: usize, stack: &mut Vec<usize>) -> Option<u64> {
    if stack.contains(&entry) {
        return None;
    }
    stack.push(entry);
    let mut k = 0;
    for &s in &bodies[entry] {
        if s == 0 {
            k += 1;
        } else {
            k += graph_expect(bodies, s - 1, stack)?;
        }
    }
    stack.pop();
    Some(k)
}

fn graph_sweep(rep: &Report, n: usize, all_entries: bool) {
    // bodies: sequences of length 1..2 over {0=addone, 1=g:0, .., n=g:(n-1)}
    let mut body_alphabet: Vec<Vec<usize>> = Vec::new();
    for a in 0..=n {
        body_alphabet.push(vec![a]);
    }
    for a in 0..=n {
        for b in 0..=n {
            body_alphabet.push(vec![a, b]);
        }
    }
    let nb = body_alphabet.len();
    let sym = |s: usize| if s == 0 { "addone".to_string() } else { format!("g:{}", s - 1) };
    let mut cases = Vec::new();
    let mut expects = Vec::new();
    for gi in 0..nb.pow(n as u32) {
        let idx = decode(gi, &vec![nb; n]);
        let bodies: Vec<Vec<usize>> = idx.iter().map(|&i| body_alphabet[i].clone()).collect();
        let resources: Vec<Value> = (0..n)
            .map(|k| json!([format!("g:{k}"), bodies[k].iter().map(|&s| sym(s)).collect::<Vec<_>>().join(" | ")]))
            .collect();
        // (entering at another macro is the same graph with the names permuted)
        for entry in 0..if all_entries { n } else { 1 } {
            cases.push(json!({"resources": resources, "definition": format!("g:{entry}")}).to_string());
            expects.push(graph_expect(&bodies, entry, &mut vec![]));
        }
    }
    run_expected(rep, &format!("graphs({n} macros, bodies of length 1..2)"), cases, expects);
}

fn run_expected(rep: &Report, label: &str, cases: Vec<String>, expects: Vec<Option<u64>>) {
    let results = run_in_workers("c04", &cases, 10);
    let mut outcomes = HashSet::new();
    for ((case, exp), res) in cases.iter().zip(expects.iter()).zip(results.iter()) {
        rep.eval(1);
        rep.state(1);
        rep.transition(1);
        rep.trace(1);
        let v: Value = serde_json::from_str(case).unwrap();
        // key: resources with names canonicalised is too fine; use the structural summary
        let summary = format!("{} with {}", v["definition"].as_str().unwrap(), v["resources"].as_array().unwrap().iter()
            .map(|r| format!("{}={}", r[0].as_str().unwrap(), r[1].as_str().unwrap())).collect::<Vec<_>>().join("; "));
        match res {
            WorkerOutcome::Skipped => rep.not_exhaustive("more than 200 cases of a worker space hung: the rest of that space was not run"),
            WorkerOutcome::Timeout => rep.violation(
                &format!("instantiation does not return (watchdog) / {label}"),
                json!({"kind": "worker", "case": v, "summary": summary}),
            ),
            WorkerOutcome::Died(s) => rep.violation(
                &format!("instantiation kills the process ({s}) / {label}"),
                json!({"kind": "worker", "case": v, "summary": summary}),
            ),
            WorkerOutcome::Answer(a) => {
                outcomes.insert(hash_of(&(a.split(' ').next().unwrap_or("").to_string(), a.split(' ').nth(2).unwrap_or("").to_string())));
                if a.starts_with("PANIC") {
                    rep.violation(&format!("panic at instantiation: {} / {label}", panic_class(&a[6..])), json!({"kind": "worker", "case": v, "answer": a}));
                } else if a.starts_with("ERR") {
                    if exp.is_some() {
                        rep.violation(
                            &format!("acyclic macro set rejected / {label}"),
                            json!({"kind": "worker", "case": v, "answer": a, "expected_adds": exp, "summary": summary}),
                        );
                    }
                } else if a.starts_with("OK") {
                    match exp {
                        None => rep.violation(
                            &format!("cyclic macro set accepted / {label}"),
                            json!({"kind": "worker", "case": v, "answer": a, "summary": summary}),
                        ),
                        Some(k) => {
                            let want = format!("OK 1 {}", *k as f64);
                            if *a != want {
                                rep.violation(
                                    &format!("expansion of acyclic macro set wrong / {label}"),
                                    json!({"kind": "worker", "case": v, "answer": a, "expected": want, "summary": summary}),
                                );
                            }
                        }
                    }
                } else {
                    rep.machinery_error(format!("unexpected worker answer {a}"));
                }
            }
        }
    }
    rep.sample(json!({"space": label, "first": serde_json::from_str::<Value>(&cases[0]).unwrap(), "last": serde_json::from_str::<Value>(&cases[cases.len()-1]).unwrap()}));
    rep.nontrivial_bulk(&outcomes);
    rep.outcomes_bulk(&outcomes);
    rep.add_to("worker_spaces", json!({"label": label, "cases": cases.len(), "distinct_answers": outcomes.len()}));
}

fn depth_sweeps(rep: &Report, max_depth: usize) {
    let mut cases = Vec::new();
    let mut expects = Vec::new();
    // rings of length 1..max: g:0 -> g:1 -> ... -> g:0 ; plain and inside pipelines
    for n in 1..=max_depth {
        for shape in 0..3 {
            let resources: Vec<Value> = (0..n)
                .map(|k| {
                    let next = format!("g:{}", (k + 1) % n);
                    let body = match shape {
                        0 => next,
                        1 => format!("addone | {next}"),
                        _ => format!("{next} | {next}"),
                    };
                    json!([format!("g:{k}"), body])
                })
                .collect();
            cases.push(json!({"resources": resources, "definition": "g:0"}).to_string());
            expects.push(None);
        }
    }
    run_expected(rep, &format!("rings of length 1..{max_depth}"), cases, expects);

    // legitimate chains of depth 0..max: c:0 -> c:1 -> ... -> c:n = addone; four body shapes
    for shape in 0..4 {
        let mut cases = Vec::new();
        let mut expects = Vec::new();
        for n in 0..=max_depth {
            let mut resources: Vec<Value> = Vec::new();
            let mut adds = 0u64;
            for k in 0..n {
                let next = format!("c:{}", k + 1);
                let body = match shape {
                    0 => next,
                    1 => {
                        adds += 1;
                        format!("addone | {next}")
                    }
                    2 => format!("{next} p=$p(1)"),
                    _ => format!("noop | {next} inv | noop"),
                };
                resources.push(json!([format!("c:{k}"), body]));
            }
            resources.push(json!([format!("c:{n}"), "addone"]));
            let total = match shape {
                3 => {
                    // each level inverts: sign alternates
                    if n % 2 == 0 { 1i64 } else { -1 }
                }
                _ => adds as i64 + 1,
            };
            cases.push(json!({"resources": resources, "definition": "c:0"}).to_string());
            expects.push(Some(total));
        }
        // run_expected wants u64 adds; encode negative via a separate path
        let label = format!("chains of depth 0..{max_depth} shape {shape}");
        let results = run_in_workers("c04", &cases, 10);
        let mut deepest_ok: i64 = -1;
        let mut first_rejected: Option<usize> = None;
        for (n, (res, exp)) in results.iter().zip(expects.iter()).enumerate() {
            rep.eval(1);
            rep.state(1);
            rep.transition(n as u64 + 1);
            rep.trace(1);
            let want = format!("OK 1 {}", exp.unwrap() as f64);
            match res {
                WorkerOutcome::Skipped => rep.not_exhaustive("more than 200 cases of a worker space hung: the rest of that space was not run"),
                WorkerOutcome::Answer(a) if *a == want => deepest_ok = n as i64,
                WorkerOutcome::Answer(a) if a.starts_with("ERR") => {
                    if first_rejected.is_none() {
                        first_rejected = Some(n);
                    }
                }
                WorkerOutcome::Answer(a) => rep.violation(
                    &format!("deep chain gives a wrong result / shape {shape}"),
                    json!({"kind": "worker", "case": serde_json::from_str::<Value>(&cases[n]).unwrap(), "answer": a, "expected": want}),
                ),
                WorkerOutcome::Died(s) => rep.violation(
                    &format!("deep chain kills the process ({s}) / shape {shape}"),
                    json!({"kind": "worker", "case": serde_json::from_str::<Value>(&cases[n]).unwrap(), "depth": n}),
                ),
                WorkerOutcome::Timeout => rep.violation(
                    &format!("deep chain does not return / shape {shape}"),
                    json!({"kind": "worker", "case": serde_json::from_str::<Value>(&cases[n]).unwrap(), "depth": n}),
                ),
            }
        }
        if let Some(n) = first_rejected {
            rep.violation(
                &format!("legitimate macro chain of depth <= 50 rejected as recursion / shape {shape}"),
                json!({"kind": "worker", "case": serde_json::from_str::<Value>(&cases[n]).unwrap(), "first_rejected_depth": n}),
            );
        }
        rep.add_to("worker_spaces", json!({"label": label, "cases": cases.len(), "deepest_accepted": deepest_ok, "first_rejected": first_rejected}));
    }
}

fn inprocess(rep: &Report, cases: Vec<(String, Case)>, label: &str) {
    let outcomes = Mutex::new(HashSet::new());
    thread_local! { static EX: std::cell::RefCell<Option<Executor>> = const { std::cell::RefCell::new(None) }; }
    let n = cases.len();
    par_range(n, |i| {
        EX.with(|e| {
            let mut e = e.borrow_mut();
            if e.is_none() {
                *e = Some(Executor::new());
            }
            let ex = e.as_mut().unwrap();
            let (lbl, case) = &cases[i];
            rep.eval(1);
            rep.state(1);
            rep.transition(case.macros.len() as u64 + 1);
            rep.trace(1);
            match check_case(ex, case) {
                Ok(h) => {
                    outcomes.lock().unwrap().insert(h);
                    if i == 0 || i == n / 2 || i == n - 1 {
                        rep.sample(json!({"space": label, "index": i, "case": case.describe()}));
                    }
                }
                Err((clause, detail)) => {
                    // key: clause + the sub-space label (shape/name/form or depth) — one line per root cause and binding form
                    let key = format!("{clause} / {lbl}");
                    let mut d = detail;
                    d["kind"] = json!("inprocess");
                    rep.violation(&key, d);
                }
            }
        })
    });
    let o = outcomes.into_inner().unwrap();
    rep.nontrivial_bulk(&o);
    rep.outcomes_bulk(&o);
    rep.add_to("spaces", json!({"label": label, "cases": n, "distinct_outcomes": o.len()}));
}

pub fn run(tier: Tier) -> Report {
    let rep = Report::new("C04", tier, "model_checking");
    rep.rule("complete products: (body shape x binding form x parameter name x caller argument subset x inv placement x stand-alone/step), \
              (two sibling arguments of one step: 7 x 7 binding forms incl. cross references x caller argument subset x leaf/nested x both name orders), \
              (chains of depth 1..4 x per-level name x per-level forwarding form x given/absent x pipeline bodies x inverted levels), \
              (all assignments of 20 bodies to 3 macro names x 3 entries), rings 1..50 and chains 0..50; each invocation compared with the \
              execution of its reference expansion. Non-trivial/distinct = distinct observed result hash");
    rep.assume("the reference expander implements environment-passing substitution as stated in the property (caller values visible to every step and nested macro, step-local values win, $name/$name(d)/(d) forms)");
    inprocess(&rep, binding_cases(), "binding");
    inprocess(&rep, sibling_cases(), "sibling arguments");
    let nest = nesting_cases(match tier { Tier::Quick => 4, Tier::Thorough => 5 });
    inprocess(&rep, nest, "nesting");
    graph_sweep(&rep, 3, true);
    if tier == Tier::Thorough {
        graph_sweep(&rep, 4, false);
    }
    depth_sweeps(&rep, 50);
    rep
}

pub fn replay(case: &Value) -> Result<String, String> {
    match case["kind"].as_str() {
        Some("worker") => {
            let c = case["case"].to_string();
            let r = run_in_workers("c04", &[c], 10);
            Err(format!("worker cases are judged by the sweep; raw answer: {:?}", r[0]))
        }
        _ => {
            // in-process: re-run instantiation of the recorded definition and report the raw behaviour
            let c = &case["case"];
            let mut ctx = Minimal::default();
            for r in c["resources"].as_array().cloned().unwrap_or_default() {
                ctx.register_resource(r[0].as_str().unwrap_or(""), r[1].as_str().unwrap_or(""));
            }
            let def = c["definition"].as_str().unwrap_or("");
            match catch(|| ctx.op(def).map(|op| apply(&ctx, op, Fwd, &PROBE))) {
                Ok(Ok(r)) => Err(format!("recorded as violation; now: Ok {r:?}; expected {}", case["expected"])),
                Ok(Err(e)) => Err(format!("recorded as violation; now: Err {e}")),
                Err(p) => Err(format!("panic {p}")),
            }
        }
    }
}
