//! C18 — names resolve predictably; handles stay valid and operators never change.
//!
//! (A1) every history of depth <= D over register_op / register_resource / op on two contexts
//!      (Minimal and Plain), against a registry model predicting what each `op` binds;
//!      invariant after every history: every live operator behaves, and reports steps and
//!      parameters, exactly as when it was created; handles pairwise distinct; bogus handles Err.
//! (A2) Plain grid cache histories (gridshift instantiation, clear_grids, rewriting the grid file),
//!      single threaded because the cache is process global.
//! (B)  every layout of a generated register file (1..3 fenced items, LF/CRLF/CR, terminator
//!      present or not, names that are prefixes of one another, separate .resource file).
//! (C)  exhaustive thread interleavings (shuttle DFS; hook H4 yields before each acquisition of
//!      the grid cache lock) of apply / instantiate / clear_grids on shared and separate contexts.

use crate::engine::*;
use crate::util::*;
use geodesy::authoring::*;
use serde_json::{json, Value};
use std::collections::{BTreeMap, HashSet};
use std::sync::Mutex;

// ----- user operators ----------------------------------------------------------------------------

fn add(op: &Op, operands: &mut dyn CoordinateSet, sign: f64) -> usize {
    let k = op.params.real("k").unwrap_or(0.);
    for i in 0..operands.len() {
        let mut c = operands.get_coord(i);
        c[0] += sign * k;
        operands.set_coord(i, &c);
    }
    operands.len()
}
fn add_fwd(op: &Op, _ctx: &dyn Context, operands: &mut dyn CoordinateSet) -> usize {
    add(op, operands, 1.)
}
fn add_inv(op: &Op, _ctx: &dyn Context, operands: &mut dyn CoordinateSet) -> usize {
    add(op, operands, -1.)
}
const USER_GAMUT: [OpParameter; 1] = [OpParameter::Flag { key: "inv" }];
fn plus10(parameters: &RawParameters, ctx: &dyn Context) -> Result<Op, Error> {
    let mut op = Op::plain(parameters, InnerOp(add_fwd), Some(InnerOp(add_inv)), &USER_GAMUT, ctx)?;
    op.params.real.insert("k", 10.);
    Ok(op)
}
fn plus20(parameters: &RawParameters, ctx: &dyn Context) -> Result<Op, Error> {
    let mut op = Op::plain(parameters, InnerOp(add_fwd), Some(InnerOp(add_inv)), &USER_GAMUT, ctx)?;
    op.params.real.insert("k", 20.);
    Ok(op)
}

// ----- (A1) registry model -------------------------------------------------------------------------

#[derive(Clone, Debug, PartialEq, Eq, Hash)]
enum Act {
    RegOp(u8, &'static str, i64),
    RegRes(u8, &'static str, &'static str),
    Op(u8, &'static str),
}

impl Act {
    fn text(&self) -> String {
        match self {
            Act::RegOp(c, n, k) => format!("ctx{c}.register_op({n:?}, plus{k})"),
            Act::RegRes(c, n, d) => format!("ctx{c}.register_resource({n:?}, {d:?})"),
            Act::Op(c, d) => format!("ctx{c}.op({d:?})"),
        }
    }
}

#[derive(Default, Clone)]
struct Registry {
    ops: BTreeMap<String, i64>,
    res: BTreeMap<String, String>,
    files: BTreeMap<String, String>,
}

impl Registry {
    /// what a definition adds to the first coordinate in the forward direction, or None = error
    fn resolve(&self, def: &str, depth: usize) -> Option<i64> {
        if depth > 60 {
            return None;
        }
        if def.contains('|') {
            let mut k = 0;
            for s in def.split('|') {
                k += self.resolve(s.trim(), depth + 1)?;
            }
            return Some(k);
        }
        let tokens: Vec<&str> = def.split_whitespace().collect();
        let inv = tokens.contains(&"inv");
        let name = *tokens.iter().find(|t| **t != "inv")?;
        let k = if !name.contains(':') {
            match self.ops.get(name) {
                Some(k) => *k,
                None if name == "addone" => 1,
                // the legacy built-in push without flags moves nothing
                None if name == "push" => 0,
                None => return None,
            }
        } else if let Some(body) = self.res.get(name) {
            self.resolve(body, depth + 1)?
        } else if let Some(body) = self.files.get(name) {
            self.resolve(body, depth + 1)?
        } else {
            return None;
        };
        Some(if inv { -k } else { k })
    }
}

struct Live {
    ctx: usize,
    handle: OpHandle,
    k: i64,
    steps: Vec<String>,
    params: String,
    fp: Vec<u64>,
    created_by: String,
}

fn params_text<C: Context>(ctx: &C, h: OpHandle) -> String {
    let n = ctx.steps(h).map(|s| s.len()).unwrap_or(0).max(1);
    let mut out = String::new();
    for i in 0..n {
        if let Ok(p) = ctx.params(h, i) {
            out.push_str(&format!("{}|{:?}|{:?}|{:?}|{:?};", p.name, p.boolean, p.real.get("k").map(|x| bits(*x)), p.given, p.text));
        }
    }
    out
}

enum AnyCtx {
    M(Minimal),
    P(Plain),
}
impl AnyCtx {
    fn op(&mut self, d: &str) -> Result<OpHandle, Error> {
        match self {
            AnyCtx::M(c) => c.op(d),
            AnyCtx::P(c) => c.op(d),
        }
    }
    fn register_op(&mut self, n: &str, c: OpConstructor) {
        match self {
            AnyCtx::M(x) => x.register_op(n, c),
            AnyCtx::P(x) => x.register_op(n, c),
        }
    }
    fn register_resource(&mut self, n: &str, d: &str) {
        match self {
            AnyCtx::M(x) => x.register_resource(n, d),
            AnyCtx::P(x) => x.register_resource(n, d),
        }
    }
    fn observe(&self, h: OpHandle) -> Result<(Vec<u64>, Vec<String>, String), String> {
        match self {
            AnyCtx::M(c) => Ok((fingerprint(c, h), c.steps(h).map_err(|e| e.to_string())?.clone(), params_text(c, h))),
            AnyCtx::P(c) => Ok((fingerprint(c, h), c.steps(h).map_err(|e| e.to_string())?.clone(), params_text(c, h))),
        }
    }
    fn apply(&self, h: OpHandle, dir: Direction, data: &mut dyn CoordinateSet) -> Result<usize, Error> {
        match self {
            AnyCtx::M(c) => c.apply(h, dir, data),
            AnyCtx::P(c) => c.apply(h, dir, data),
        }
    }
    fn steps_err(&self, h: OpHandle) -> bool {
        match self {
            AnyCtx::M(c) => c.steps(h).is_err() && c.params(h, 0).is_err(),
            AnyCtx::P(c) => c.steps(h).is_err() && c.params(h, 0).is_err(),
        }
    }
}

/// Run one history on fresh contexts; check model agreement at every op and the invariants at the end
fn run_history(hist: &[Act], plain: bool, files: &BTreeMap<String, String>) -> Result<u64, (String, Value)> {
    let mut ctxs: Vec<AnyCtx> = if plain { vec![AnyCtx::P(Plain::default()), AnyCtx::P(Plain::default())] } else { vec![AnyCtx::M(Minimal::default()), AnyCtx::M(Minimal::default())] };
    let mut regs = vec![Registry::default(), Registry::default()];
    if plain {
        for r in regs.iter_mut() {
            r.files = files.clone();
        }
    }
    let mut live: Vec<Live> = Vec::new();
    let describe = |hist: &[Act]| hist.iter().map(|a| a.text()).collect::<Vec<_>>();
    let kind = if plain { "Plain" } else { "Minimal" };
    for (i, act) in hist.iter().enumerate() {
        match act {
            Act::RegOp(c, n, k) => {
                ctxs[*c as usize].register_op(n, OpConstructor(if *k == 10 { plus10 } else { plus20 }));
                regs[*c as usize].ops.insert(n.to_string(), *k);
            }
            Act::RegRes(c, n, d) => {
                ctxs[*c as usize].register_resource(n, d);
                regs[*c as usize].res.insert(n.to_string(), d.to_string());
            }
            Act::Op(c, d) => {
                let expect = regs[*c as usize].resolve(d, 0);
                let got = catch(|| ctxs[*c as usize].op(d));
                let name_class = if d.contains('|') { "pipeline" } else if d.contains(':') { "macro name" } else { "plain name" };
                match (got, expect) {
                    (Err(p), _) => return Err((format!("panic in op: {}", panic_class(&p)), json!({"context": kind, "history": describe(&hist[..=i]), "panic": p}))),
                    (Ok(Err(_)), None) => {}
                    (Ok(Err(e)), Some(k)) => {
                        return Err((
                            format!("resolvable definition rejected / {name_class}"),
                            json!({"context": kind, "history": describe(&hist[..=i]), "error": e.to_string(), "model_expects_adds": k}),
                        ))
                    }
                    (Ok(Ok(_)), None) => return Err((format!("unknown name accepted / {name_class}"), json!({"context": kind, "history": describe(&hist[..=i])}))),
                    (Ok(Ok(h)), Some(k)) => {
                        let (fp, steps, params) = match ctxs[*c as usize].observe(h) {
                            Ok(o) => o,
                            Err(e) => return Err(("steps/params of a fresh handle fail".into(), json!({"context": kind, "history": describe(&hist[..=i]), "error": e}))),
                        };
                        let mut data = [Coor4D([0., 0., 0., 0.])];
                        let n = ctxs[*c as usize].apply(h, Fwd, &mut data).unwrap_or(usize::MAX);
                        if n != 1 || data[0][0] != k as f64 {
                            return Err((
                                format!("definition resolved differently from the documented order / {name_class}"),
                                json!({"context": kind, "history": describe(&hist[..=i]), "model_expects_adds": k, "observed_adds": data[0][0]}),
                            ));
                        }
                        // the same binding serves the inverse direction (round 10: the inverse loop of a
                        // pipeline chose its stack steps by name alone and bypassed a user operator named `push`)
                        let mut back = [Coor4D([0., 0., 0., 0.])];
                        let n = ctxs[*c as usize].apply(h, Inv, &mut back).unwrap_or(usize::MAX);
                        if n != 1 || back[0][0] != -(k as f64) {
                            return Err((
                                format!("definition resolved differently in the inverse direction / {name_class}"),
                                json!({"context": kind, "history": describe(&hist[..=i]), "model_expects_adds": -k, "observed_adds": back[0][0]}),
                            ));
                        }
                        live.push(Live { ctx: *c as usize, handle: h, k, steps, params, fp, created_by: act.text() });
                    }
                }
            }
        }
    }
    // invariants in the final state
    let mut handles = std::collections::BTreeSet::new();
    let mut h = 0u64;
    for l in &live {
        if !handles.insert(l.handle) {
            return Err(("two instantiations share one handle".into(), json!({"context": kind, "history": describe(hist)})));
        }
        let (fp, steps, params) = ctxs[l.ctx].observe(l.handle).map_err(|e| ("live handle became invalid".to_string(), json!({"context": kind, "history": describe(hist), "error": e})))?;
        if fp != l.fp || steps != l.steps || params != l.params {
            let what = if fp != l.fp { "behaviour" } else if steps != l.steps { "step list" } else { "parameters" };
            return Err((
                format!("an instantiated operator changed its {what} after later registrations/instantiations"),
                json!({"context": kind, "history": describe(hist), "operator": l.created_by, "adds_at_creation": l.k, "steps_then": l.steps, "steps_now": steps}),
            ));
        }
        // a handle is only valid in the context that made it
        let other = 1 - l.ctx;
        let mut data = [Coor4D([0.; 4])];
        if ctxs[other].apply(l.handle, Fwd, &mut data).is_ok() || !ctxs[other].steps_err(l.handle) {
            return Err(("a handle of one context is accepted by another context".into(), json!({"context": kind, "history": describe(hist)})));
        }
        h = hash_of(&(h, &l.fp, l.k));
    }
    // unknown handle
    let bogus = OpHandle::default();
    let mut data = [Coor4D([0.; 4])];
    for c in &ctxs {
        if c.apply(bogus, Fwd, &mut data).is_ok() || !c.steps_err(bogus) {
            return Err(("an unknown handle is accepted".into(), json!({"context": kind, "history": describe(hist)})));
        }
    }
    Ok(hash_of(&(h, live.len())))
}

fn alphabet(full: bool) -> Vec<Act> {
    let mut a = Vec::new();
    for (n, k) in [("addone", 10), ("foo", 10), ("foo", 20), ("addone", 20)] {
        a.push(Act::RegOp(0, n, k));
    }
    for n in ["m:a", "addone", "f:x"] {
        for d in ["addone", "addone|addone", "foo", "m:a inv", "f:y"] {
            if !full && (d == "m:a inv" || n == "addone" && d != "foo") {
                continue;
            }
            a.push(Act::RegRes(0, n, d));
        }
    }
    for d in ["addone", "foo", "m:a", "m:a | addone", "addone inv | foo", "nosuch", "no:such", "f:x", "f:y"] {
        a.push(Act::Op(0, d));
    }
    // a colon in an ARGUMENT does not make the step a macro invocation: the name decides
    a.push(Act::Op(0, "foo label=a:b"));
    if full {
        a.push(Act::Op(0, "addone label=epsg:4326 | foo"));
        // a user operator carrying the name of a built-in the pipeline executes itself
        a.push(Act::RegOp(0, "push", 10));
        a.push(Act::Op(0, "push | addone"));
        // names are taken as written, also when they contain a subscript digit (which is sugar in parameter keys only)
        a.push(Act::RegOp(0, "add₁", 20));
        a.push(Act::RegRes(0, "m:op₁", "addone|addone"));
        a.push(Act::Op(0, "add₁ | m:op₁"));
    }
    // the second context
    a.push(Act::RegOp(1, "addone", 20));
    a.push(Act::RegRes(1, "m:a", "addone|addone"));
    a.push(Act::Op(1, "m:a"));
    a.push(Act::Op(1, "addone"));
    a
}

fn histories(rep: &Report, plain: bool, alpha: &[Act], depth: usize, files: &BTreeMap<String, String>, label: &str) {
    let a = alpha.len();
    let total = a.pow(depth as u32);
    let outcomes = Mutex::new(HashSet::new());
    par_range(total, |i| {
        let idx = decode(i, &vec![a; depth]);
        let hist: Vec<Act> = idx.iter().map(|&j| alpha[j].clone()).collect();
        // histories without any instantiation have nothing to observe
        rep.eval(1);
        rep.state(1);
        rep.transition(depth as u64);
        if !hist.iter().any(|x| matches!(x, Act::Op(..))) {
            return;
        }
        rep.trace(1);
        match run_history(&hist, plain, files) {
            Ok(h) => {
                outcomes.lock().unwrap().insert(h);
                if i == total / 3 || i == total - 2 {
                    rep.sample(json!({"space": label, "history": hist.iter().map(|a| a.text()).collect::<Vec<_>>()}));
                }
            }
            Err((clause, mut detail)) => {
                // minimise: drop actions while the same clause fails
                let mut cur = hist.clone();
                loop {
                    let mut changed = false;
                    for k in 0..cur.len() {
                        let mut t = cur.clone();
                        t.remove(k);
                        if let Err((c2, _)) = run_history(&t, plain, files) {
                            if c2 == clause {
                                cur = t;
                                changed = true;
                                break;
                            }
                        }
                    }
                    if !changed {
                        break;
                    }
                }
                detail["kind"] = json!("history");
                detail["minimal_history"] = json!(cur.iter().map(|a| a.text()).collect::<Vec<_>>());
                let shape: Vec<String> = cur
                    .iter()
                    .map(|a| match a {
                        Act::RegOp(c, n, _) => format!("ctx{c}.register_op({n})"),
                        Act::RegRes(c, n, d) => format!("ctx{c}.register_resource({n}={d})"),
                        Act::Op(c, d) => format!("ctx{c}.op({d})"),
                    })
                    .collect();
                rep.violation(&format!("{clause} / {} / minimal: {}", if plain { "Plain" } else { "Minimal" }, shape.join("; ")), detail);
            }
        }
    });
    let o = outcomes.into_inner().unwrap();
    rep.nontrivial_bulk(&o);
    rep.outcomes_bulk(&o);
    rep.add_to("history_spaces", json!({"label": label, "alphabet": a, "depth": depth, "histories": total}));
}

// ----- (A2) Plain grid cache histories ---------------------------------------------------------------

fn datum_grid(version: u32) -> String {
    // 2 x 2 nodes, 2 bands (lat, lon corrections in arcsec); values depend on the version
    let v = version as f64;
    format!("54. 56. 10. 12. 2. 2.\n {} {} {} {}\n {} {} {} {}\n", 1. + v, 2. + v, 1. + v, 2. + v, 1. + v, 2. + v, 1. + v, 2. + v)
}

#[derive(Clone, Copy, Debug, PartialEq)]
enum GAct {
    Inst,        // instantiate gridshift grids=<name>
    InstOther,   // instantiate in a second Plain context
    Clear,       // Plain::clear_grids()
    Rewrite(u32),
    Delete,      // remove the grid file from disk
}

fn grid_histories(rep: &Report, depth: usize, wd: &std::path::Path) {
    let name = "c18.datum";
    let path = wd.join("geodesy").join("datum");
    std::fs::create_dir_all(&path).unwrap();
    let file = path.join(name);
    let def = format!("gridshift grids={name}");
    let probe = [[11f64.to_radians(), 55f64.to_radians(), 0., 0.]];
    // reference behaviour per version, from a clean cache
    let mut reference: BTreeMap<u32, Vec<u64>> = BTreeMap::new();
    for v in [1u32, 2] {
        std::fs::write(&file, datum_grid(v)).unwrap();
        Plain::clear_grids();
        let mut c = Plain::default();
        match c.op(&def) {
            Ok(h) => {
                let (n, out) = apply(&c, h, Fwd, &probe);
                reference.insert(v, vec![n as u64, bits(out[0][0]), bits(out[0][1])]);
            }
            Err(e) => {
                rep.machinery_error(format!("grid history reference instantiation failed: {e}"));
                return;
            }
        }
    }
    if reference[&1] == reference[&2] {
        rep.machinery_error("grid versions are indistinguishable".into());
        return;
    }
    let alpha = [GAct::Inst, GAct::InstOther, GAct::Clear, GAct::Rewrite(1), GAct::Rewrite(2), GAct::Delete];
    let a = alpha.len();
    let mut outcomes = HashSet::new();
    for d in 1..=depth {
        let total = a.pow(d as u32);
        for i in 0..total {
            let idx = decode(i, &vec![a; d]);
            let hist: Vec<GAct> = idx.iter().map(|&j| alpha[j]).collect();
            if !hist.iter().any(|x| matches!(x, GAct::Inst | GAct::InstOther)) {
                continue;
            }
            rep.eval(1);
            rep.state(1);
            rep.transition(d as u64);
            rep.trace(1);
            // fresh world
            std::fs::write(&file, datum_grid(1)).unwrap();
            Plain::clear_grids();
            let mut ctxs = [Plain::default(), Plain::default()];
            let mut on_disk: Option<u32> = Some(1);
            let mut cached: Option<u32> = None;
            let mut live: Vec<(usize, OpHandle, u32)> = Vec::new();
            let mut failed = None;
            for (step, act) in hist.iter().enumerate() {
                match act {
                    GAct::Clear => {
                        Plain::clear_grids();
                        cached = None;
                    }
                    GAct::Rewrite(v) => {
                        std::fs::write(&file, datum_grid(*v)).unwrap();
                        on_disk = Some(*v);
                    }
                    GAct::Delete => {
                        let _ = std::fs::remove_file(&file);
                        on_disk = None;
                    }
                    GAct::Inst | GAct::InstOther => {
                        let c = if *act == GAct::Inst { 0 } else { 1 };
                        let expect = cached.or(on_disk);
                        match (catch(|| ctxs[c].op(&def)), expect) {
                            (Err(p), _) => failed = Some((format!("panic: {}", panic_class(&p)), step)),
                            (Ok(Err(_)), None) => {}
                            (Ok(Err(_)), Some(_)) => failed = Some(("gridshift instantiation fails although the grid is cached or on disk".to_string(), step)),
                            (Ok(Ok(_)), None) => failed = Some(("gridshift instantiated although the grid is neither cached nor on disk".to_string(), step)),
                            (Ok(Ok(h)), Some(v)) => {
                                cached = Some(v);
                                live.push((c, h, v));
                            }
                        }
                    }
                }
                // invariant after every action: every live operator still behaves as its version
                for (c, h, v) in &live {
                    let (n, out) = apply(&ctxs[*c], *h, Fwd, &probe);
                    let got = vec![n as u64, bits(out[0][0]), bits(out[0][1])];
                    if got != reference[v] {
                        failed = Some((format!("an instantiated grid operator changed behaviour after {:?}", act).replace(char::is_numeric, "#"), step));
                    }
                    outcomes.insert(hash_of(&got));
                }
                if failed.is_some() {
                    break;
                }
            }
            if let Some((clause, step)) = failed {
                rep.violation(
                    &format!("grid cache: {clause}"),
                    json!({"kind": "grid-history", "history": hist.iter().map(|a| format!("{a:?}")).collect::<Vec<_>>(), "failing_step": step}),
                );
            }
            if i == total / 2 && d == depth {
                rep.sample(json!({"space": "grid cache histories", "history": hist.iter().map(|a| format!("{a:?}")).collect::<Vec<_>>()}));
            }
        }
    }
    Plain::clear_grids();
    rep.nontrivial_bulk(&outcomes);
    rep.outcomes_bulk(&outcomes);
    rep.add_to("history_spaces", json!({"label": "Plain grid cache (single threaded)", "alphabet": a, "max_depth": depth}));
}

// ----- (B) register file layouts -----------------------------------------------------------------------

fn register_layouts(rep: &Report, wd: &std::path::Path) {
    let dir = wd.join("geodesy").join("resources");
    std::fs::create_dir_all(&dir).unwrap();
    let names = ["way", "way_too", "wa", "other"];
    let bodies = ["addone", "addone | addone", "addone | addone | addone", "addone inv"];
    let adds = [1f64, 2., 3., -1.];
    let mut outcomes = HashSet::new();
    // which items are present (non-empty subsets of 4, at most 3 items), in which order (rotations),
    // line ends, terminator of the last item, prose between items, blank lines inside the fence
    for subset in 1u32..16 {
        let items: Vec<usize> = (0..4).filter(|i| subset & (1 << i) != 0).collect();
        if items.len() > 3 {
            continue;
        }
        for rot in 0..items.len() {
            let mut order = items.clone();
            order.rotate_left(rot);
            for eol in ["\n", "\r\n", "\r"] {
                for terminated in [true, false] {
                    for prose in [false, true] {
                        for inner_blank in [false, true] {
                            for resource_file in [false, true] {
                                let mut text = String::new();
                                if prose {
                                    text.push_str(&format!("# A register{eol}{eol}Some prose mentioning geodesy:way and ``` nothing.{eol}{eol}"));
                                }
                                for (k, &it) in order.iter().enumerate() {
                                    let last = k == order.len() - 1;
                                    if prose {
                                        text.push_str(&format!("## Item {}{eol}{eol}", names[it]));
                                    }
                                    text.push_str(&format!("```geodesy:{}{eol}", names[it]));
                                    if inner_blank {
                                        text.push_str(eol);
                                        text.push_str(&format!("# a comment{eol}"));
                                    }
                                    text.push_str(bodies[it]);
                                    text.push_str(eol);
                                    if !last || terminated {
                                        text.push_str(&format!("```{eol}"));
                                    }
                                    if !last {
                                        text.push_str(eol);
                                    }
                                }
                                std::fs::write(dir.join("reg.md"), &text).unwrap();
                                let rf = dir.join("reg_other.resource");
                                if resource_file {
                                    std::fs::write(&rf, format!("# separate file{eol}addone | addone | addone | addone{eol}")).unwrap();
                                } else {
                                    let _ = std::fs::remove_file(&rf);
                                }
                                let mut ctx = Plain::default();
                                for (it, name) in names.iter().enumerate() {
                                    rep.eval(1);
                                    let present = order.contains(&it);
                                    let full = format!("reg:{name}");
                                    let expect: Option<f64> = if *name == "other" && resource_file { Some(4.) } else if present { Some(adds[it]) } else { None };
                                    let got = catch(|| {
                                        ctx.op(&full).ok().map(|h| {
                                            let mut data = [Coor4D([0.; 4])];
                                            let n = ctx.apply(h, Fwd, &mut data).unwrap_or(0);
                                            (n, data[0][0])
                                        })
                                    });
                                    let describe = || json!({"kind": "register", "register": text, "separate_resource_file": resource_file, "name": full, "expected_adds": expect});
                                    let cls = format!(
                                        "eol={:?} terminated={terminated} position={}",
                                        eol,
                                        if order.last() == Some(&it) { "last" } else { "not-last" }
                                    );
                                    match (got, expect) {
                                        (Err(p), _) => rep.violation(&format!("register: panic {}", panic_class(&p)), describe()),
                                        (Ok(None), None) => {}
                                        (Ok(Some((1, x))), Some(e)) if x == e => {
                                            outcomes.insert(hash_of(&(text.len(), it, bits(x))));
                                        }
                                        (Ok(got), _) => {
                                            let mut d = describe();
                                            d["observed"] = json!(format!("{got:?}"));
                                            rep.violation(&format!("register: item not found or wrong body returned / {cls}"), d);
                                        }
                                    }
                                    // run-time registrations take precedence over files
                                    if present && it == 0 {
                                        let mut c2 = Plain::default();
                                        c2.register_resource(&full, "addone inv | addone inv");
                                        let got = c2.op(&full).ok().map(|h| apply(&c2, h, Fwd, &[[0.; 4]]).1[0][0]);
                                        rep.eval(1);
                                        if got != Some(-2.) {
                                            rep.violation("register: run-time registration does not take precedence over the file", describe());
                                        }
                                    }
                                }
                            }
                        }
                    }
                }
            }
        }
    }
    let _ = std::fs::remove_file(dir.join("reg.md"));
    let _ = std::fs::remove_file(dir.join("reg_other.resource"));
    rep.set("register_layout_lookups_distinct", json!(outcomes.len()));
    rep.nontrivial_bulk(&outcomes);
    rep.outcomes_bulk(&outcomes);
}

/// Lookups that fall through several search paths: the item may live in a separate resource file or in a
/// register, in the local directory (./geodesy/resources) or in the user's data directory
/// ($XDG_DATA_HOME/geodesy/resources); registers that exist but lack the item must not stop the search.
/// Complete product: local file {no, yes} x local register {none, without the item, with it} x user file x
/// user register x position of the item in its register.
fn search_paths(rep: &Report, wd: &std::path::Path) {
    let local = wd.join("geodesy").join("resources");
    let user = wd.join("xdg").join("geodesy").join("resources");
    std::fs::create_dir_all(&local).unwrap();
    std::fs::create_dir_all(&user).unwrap();
    // bodies tell the four locations apart
    let body = |k: usize| ["addone", "addone | addone", "addone | addone | addone", "addone | addone | addone | addone"][k];
    let mut outcomes = HashSet::new();
    for cfg in 0..(2 * 3 * 2 * 3 * 2) {
        let d = decode(cfg, &[2, 3, 2, 3, 2]);
        let (lf, lr, uf, ur, item_last) = (d[0] == 1, d[1], d[2] == 1, d[3], d[4] == 1);
        let register = |has: bool, k: usize| -> String {
            let other = "```geodesy:other\naddone inv\n```\n".to_string();
            let item = format!("```geodesy:item\n{}\n```\n", body(k));
            match (has, item_last) {
                (false, _) => format!("# register\n\n{other}"),
                (true, true) => format!("# register\n\n{other}\n{item}"),
                (true, false) => format!("# register\n\n{item}\n{other}"),
            }
        };
        for (dir, file, reg, kf, kr) in [(&local, lf, lr, 0usize, 1usize), (&user, uf, ur, 2, 3)] {
            let f = dir.join("sp_item.resource");
            let r = dir.join("sp.md");
            let _ = std::fs::remove_file(&f);
            let _ = std::fs::remove_file(&r);
            if file {
                std::fs::write(&f, format!("{}\n", body(kf))).unwrap();
            }
            if reg > 0 {
                std::fs::write(&r, register(reg == 2, kr)).unwrap();
            }
        }
        // acceptable answers: any location holding the item, except a register whose own directory also
        // holds the separate file (the file is looked for first); precedence between directories is not judged
        let mut acceptable: Vec<f64> = Vec::new();
        if lf { acceptable.push(1.); }
        if lr == 2 && !lf { acceptable.push(2.); }
        if uf { acceptable.push(3.); }
        if ur == 2 && !uf { acceptable.push(4.); }
        rep.eval(1);
        let ctx_result = catch(|| {
            let mut ctx = Plain::default();
            ctx.op("sp:item").ok().map(|h| {
                let mut data = [Coor4D([0.; 4])];
                let n = ctx.apply(h, Fwd, &mut data).unwrap_or(0);
                (n, data[0][0])
            })
        });
        let reg_state = ["none", "without the item", "with the item"];
        let describe = || json!({"kind": "search paths", "local_resource_file": lf, "local_register": reg_state[lr], "user_resource_file": uf,
                                 "user_register": reg_state[ur], "item_is_last_in_register": item_last, "acceptable_adds": acceptable});
        let where_ = format!("{}{}", if lf || lr == 2 { "local" } else { "" }, if uf || ur == 2 { "+user" } else { "" });
        match ctx_result {
            Err(p) => rep.violation(&format!("search paths: panic {}", panic_class(&p)), describe()),
            Ok(None) if acceptable.is_empty() => {}
            Ok(Some((1, x))) if acceptable.contains(&x) => {
                outcomes.insert(hash_of(&(cfg, bits(x))));
            }
            Ok(got) => {
                let mut dd = describe();
                dd["observed"] = json!(format!("{got:?}"));
                rep.violation(&format!("search paths: a file based macro is not found where it lives (or found where it does not) / item in [{where_}], local register {}", ["absent", "present without the item", "present with the item"][lr]), dd);
            }
        }
    }
    for dir in [&local, &user] {
        let _ = std::fs::remove_file(dir.join("sp_item.resource"));
        let _ = std::fs::remove_file(dir.join("sp.md"));
    }
    rep.set("search_path_configurations", json!(2 * 3 * 2 * 3 * 2));
    rep.nontrivial_bulk(&outcomes);
    rep.outcomes_bulk(&outcomes);
}

// ----- (C) schedules ----------------------------------------------------------------------------------

fn sched_yield(_tag: &'static str) {
    shuttle::thread::yield_now();
}

#[derive(Clone, Copy, Debug, PartialEq)]
enum TAct {
    ApplyShared,  // apply the pre-made operator through the shared context
    Instantiate,  // new context, instantiate gridshift, apply
    Clear,        // Plain::clear_grids()
    InstTwo,      // instantiate an operator using two grids
}

fn schedules(rep: &Report, wd: &std::path::Path, tier: Tier) {
    use std::sync::Arc;
    let path = wd.join("geodesy").join("datum");
    std::fs::create_dir_all(&path).unwrap();
    std::fs::write(path.join("s1.datum"), datum_grid(1)).unwrap();
    std::fs::write(path.join("s2.datum"), datum_grid(2)).unwrap();
    let probe = [[11f64.to_radians(), 55f64.to_radians(), 0., 0.]];
    // sequential references
    Plain::clear_grids();
    let mut c = Plain::default();
    let h1 = c.op("gridshift grids=s1.datum").unwrap();
    let ref1 = apply(&c, h1, Fwd, &probe);
    let h2 = c.op("gridshift grids=s2.datum, s1.datum").unwrap();
    let ref2 = apply(&c, h2, Fwd, &probe);
    drop(c);
    geodesy::verif::set_sched_hook(Some(sched_yield));

    // thread programs: each thread performs a short list of actions
    let harnesses: Vec<(&str, Vec<Vec<TAct>>)> = match tier {
        Tier::Quick => vec![
            ("apply || apply || clear", vec![vec![TAct::ApplyShared, TAct::ApplyShared], vec![TAct::ApplyShared], vec![TAct::Clear]]),
            ("instantiate || instantiate || clear", vec![vec![TAct::Instantiate], vec![TAct::Instantiate], vec![TAct::Clear]]),
            ("instantiate two grids || clear || apply", vec![vec![TAct::InstTwo], vec![TAct::Clear, TAct::Clear], vec![TAct::ApplyShared]]),
        ],
        Tier::Thorough => vec![
            ("apply,apply || apply,apply || clear,clear", vec![vec![TAct::ApplyShared, TAct::ApplyShared], vec![TAct::ApplyShared, TAct::ApplyShared], vec![TAct::Clear, TAct::Clear]]),
            ("instantiate,apply || instantiate || clear,clear", vec![vec![TAct::Instantiate, TAct::ApplyShared], vec![TAct::Instantiate], vec![TAct::Clear, TAct::Clear]]),
            ("instantiate two grids || clear,clear || instantiate,apply", vec![vec![TAct::InstTwo], vec![TAct::Clear, TAct::Clear], vec![TAct::Instantiate, TAct::ApplyShared]]),
            ("instantiate two || instantiate two || clear", vec![vec![TAct::InstTwo], vec![TAct::InstTwo], vec![TAct::Clear]]),
        ],
    };
    for (label, programs) in harnesses {
        let executions = Arc::new(std::sync::atomic::AtomicU64::new(0));
        let orders: Arc<Mutex<HashSet<u64>>> = Arc::new(Mutex::new(HashSet::new()));
        let results: Arc<Mutex<HashSet<u64>>> = Arc::new(Mutex::new(HashSet::new()));
        let failures: Arc<Mutex<Vec<String>>> = Arc::new(Mutex::new(Vec::new()));
        let (ex2, or2, rs2, fl2) = (executions.clone(), orders.clone(), results.clone(), failures.clone());
        let programs2 = programs.clone();
        let (r1, r2) = (ref1.clone(), ref2.clone());
        let body = move || {
            ex2.fetch_add(1, std::sync::atomic::Ordering::Relaxed);
            // every execution starts from an empty cache and a shared context holding one operator
            Plain::clear_grids();
            let mut shared = Plain::default();
            let h = shared.op("gridshift grids=s1.datum").expect("setup instantiation");
            let shared = Arc::new(shared);
            let trace: Arc<Mutex<Vec<(usize, usize)>>> = Arc::new(Mutex::new(Vec::new()));
            let mut joins = Vec::new();
            for (tid, prog) in programs2.iter().enumerate() {
                let (shared, trace, prog, fl, r1, r2) = (shared.clone(), trace.clone(), prog.clone(), fl2.clone(), r1.clone(), r2.clone());
                joins.push(shuttle::thread::spawn(move || {
                    let probe = [[11f64.to_radians(), 55f64.to_radians(), 0., 0.]];
                    for (k, act) in prog.iter().enumerate() {
                        shuttle::thread::yield_now();
                        trace.lock().unwrap().push((tid, k));
                        match act {
                            TAct::ApplyShared => {
                                let got = apply(&*shared, h, Fwd, &probe);
                                if got.0 != r1.0 || !same_bits(&got.1, &r1.1) {
                                    fl.lock().unwrap().push(format!("apply through the shared context differs from the sequential result: {got:?}"));
                                }
                            }
                            TAct::Instantiate => {
                                let mut c = Plain::default();
                                match c.op("gridshift grids=s1.datum") {
                                    Ok(h2) => {
                                        let got = apply(&c, h2, Fwd, &probe);
                                        if got.0 != r1.0 || !same_bits(&got.1, &r1.1) {
                                            fl.lock().unwrap().push(format!("operator instantiated concurrently differs from the sequential result: {got:?}"));
                                        }
                                    }
                                    Err(e) => fl.lock().unwrap().push(format!("instantiation failed under concurrency: {e}")),
                                }
                            }
                            TAct::InstTwo => {
                                let mut c = Plain::default();
                                match c.op("gridshift grids=s2.datum, s1.datum") {
                                    Ok(h2) => {
                                        let got = apply(&c, h2, Fwd, &probe);
                                        if got.0 != r2.0 || !same_bits(&got.1, &r2.1) {
                                            fl.lock().unwrap().push(format!("two-grid operator instantiated concurrently differs from the sequential result: {got:?}"));
                                        }
                                    }
                                    Err(e) => fl.lock().unwrap().push(format!("two-grid instantiation failed under concurrency: {e}")),
                                }
                            }
                            TAct::Clear => Plain::clear_grids(),
                        }
                    }
                }));
            }
            for j in joins {
                j.join().unwrap();
            }
            // afterwards: the operator made before everything else still works
            let probe = [[11f64.to_radians(), 55f64.to_radians(), 0., 0.]];
            let got = apply(&*shared, h, Fwd, &probe);
            if got.0 != r1.0 || !same_bits(&got.1, &r1.1) {
                fl2.lock().unwrap().push("operator made before the concurrent phase changed".to_string());
            }
            or2.lock().unwrap().insert(hash_of(&*trace.lock().unwrap()));
            rs2.lock().unwrap().insert(hash_of(&bits4(got.1[0])));
        };
        let mut config = shuttle::Config::new();
        config.stack_size = 1 << 20;
        config.max_steps = shuttle::MaxSteps::FailAfter(100_000);
        let scheduler = shuttle::scheduler::DfsScheduler::new(None, false);
        let runner = shuttle::Runner::new(scheduler, config);
        let t0 = std::time::Instant::now();
        let outcome = catch(move || runner.run(body));
        let n = executions.load(std::sync::atomic::Ordering::Relaxed);
        rep.eval(n);
        rep.state(n);
        rep.transition(n);
        rep.trace(n);
        let norders = orders.lock().unwrap().len();
        rep.add_to("schedule_harnesses", json!({"harness": label, "executions": n, "distinct_action_orders": norders, "distinct_outcomes": results.lock().unwrap().len(), "wall_s": t0.elapsed().as_secs_f64()}));
        rep.sample(json!({"harness": label, "threads": programs.iter().map(|p| p.iter().map(|a| format!("{a:?}")).collect::<Vec<_>>()).collect::<Vec<_>>(), "schedules": n}));
        rep.nontrivial_bulk(&orders.lock().unwrap());
        if let Err(p) = outcome {
            rep.violation(&format!("schedule: deadlock or panic under some interleaving / {label}"), json!({"kind": "schedule", "harness": label, "panic": p}));
        }
        let f = failures.lock().unwrap();
        if let Some(first) = f.first() {
            let clause = first.split(':').next().unwrap_or("").to_string();
            rep.violation(&format!("schedule: {clause} / {label}"), json!({"kind": "schedule", "harness": label, "failures": f.len(), "first": first}));
        }
    }
    geodesy::verif::set_sched_hook(None);
    Plain::clear_grids();
}

pub fn run(tier: Tier) -> Report {
    let rep = Report::new("C18", tier, "model_checking");
    rep.rule("(A1) every history of depth 1..D over register_op/register_resource/op on two contexts, Minimal and Plain, against a registry model; (A2) every history of \
              depth 1..D over gridshift instantiation in two contexts / clear_grids / rewriting / deleting the grid file; (B) every generated register layout; \
              (C) every interleaving (shuttle DFS) of three threads at API-call and grid-cache-lock boundaries. Non-trivial = history containing an instantiation / \
              distinct action order; distinct = distinct observed outcome hash");
    rep.assume("user-registered operators and macros are modelled as 'add k' so that the binding chosen by `op` is observable as a number");
    rep.assume("shuttle serialises threads and switches only at yields (API call boundaries and immediately before each GRIDS lock acquisition): atomicity/ordering of the cache is explored, weak-memory effects are not (the state is behind a Mutex in safe Rust)");
    let wd = enter_private_workdir();
    let mut files = BTreeMap::new();
    files.insert("f:x".to_string(), "addone | addone | addone".to_string());
    files.insert("f:y".to_string(), "addone inv".to_string());
    std::fs::write(wd.join("geodesy").join("resources").join("f_x.resource"), "addone | addone | addone\n").unwrap();
    std::fs::write(wd.join("geodesy").join("resources").join("f.md"), "# register f\n\n```geodesy:y\naddone inv\n```\n").unwrap();
    let full = alphabet(true);
    let reduced = alphabet(false);
    let none = BTreeMap::new();
    for plain in [false, true] {
        let f = if plain { &files } else { &none };
        let name = if plain { "Plain" } else { "Minimal" };
        for d in 1..=3 {
            histories(&rep, plain, &full, d, f, &format!("{name} full^{d}"));
        }
        match tier {
            Tier::Quick => histories(&rep, plain, &reduced, 4, f, &format!("{name} reduced^4")),
            Tier::Thorough => {
                histories(&rep, plain, &full, 4, f, &format!("{name} full^4"));
                histories(&rep, plain, &reduced, 5, f, &format!("{name} reduced^5"));
            }
        }
    }
    grid_histories(&rep, tier.pick(5, 7), &wd);
    register_layouts(&rep, &wd);
    search_paths(&rep, &wd);
    schedules(&rep, &wd, tier);
    leave_private_workdir(&wd);
    rep
}

pub fn replay(case: &Value) -> Result<String, String> {
    Err(format!("recorded violation (re-run ./check C18 quick to re-evaluate); case: {case}"))
}
