//! C03 — pipelines compose steps in order and invert by reversing inverted steps.
//!
//! Explicit-state exploration of the program tree: every pipeline of length 1..L over a step
//! alphabet (elementary operators, a one-way operator, user macros with single-operator,
//! pipeline, directional, nested and stack bodies) x every placement of inv / omit_fwd /
//! omit_inv (prefix, infix, suffix, =true, </> sugar). Oracle: a reference interpreter that
//! never parses library text: it holds the program as a tree, instantiates every elementary
//! step as a stand-alone operator, and applies them one after another.

use crate::engine::*;
use crate::util::*;
use geodesy::authoring::*;
use serde_json::{json, Value};
use std::collections::HashSet;
use std::sync::Mutex;

#[derive(Clone, Copy, Debug, PartialEq, Eq, Hash)]
pub enum InvForm {
    None,
    Suffix,
    Prefix,
    Infix,
    EqTrue,
    /// `inv=true` written in front of the operator name
    PrefixEqTrue,
}
#[derive(Clone, Copy, Debug, PartialEq, Eq, Hash)]
pub enum OmitForm {
    None,
    OmitFwd,
    OmitInv,
    OmitFwdTrue,
    Lt, // '<' sugar: omit_fwd
    Gt, // '>' sugar: omit_inv
    /// both modifiers on one step: left out in either direction
    Both,
}

#[derive(Clone, Debug, PartialEq, Eq, Hash)]
pub struct Step {
    pub base: usize,
    pub inv: InvForm,
    pub omit: OmitForm,
}

/// A base step: elementary (text, invertible) or macro (name, body)
pub enum Base {
    Elem { name: &'static str, args: &'static str, invertible: bool },
    /// `text`: registered verbatim instead of the rendering of `body` (which then is the
    /// model's equivalent of the text, e.g. a stack dance equal to an axis swap)
    Macro { name: &'static str, body: Vec<Step>, text: Option<&'static str> },
}

/// The base alphabet. Macro bodies refer to earlier entries only.
pub fn bases() -> Vec<Base> {
    let s = |base, inv, omit| Step { base, inv, omit };
    vec![
        /* 0 */ Base::Elem { name: "addone", args: "", invertible: true },
        /* 1 */ Base::Elem { name: "helmert", args: "x=3 y=5 z=7 s=1000000", invertible: true },
        /* 2 */ Base::Elem { name: "axisswap", args: "order=2,1", invertible: true },
        /* 3 */ Base::Elem { name: "unitconvert", args: "xy_out=km", invertible: true },
        /* 4 */ Base::Elem { name: "cart", args: "", invertible: true },
        /* 5 */ Base::Elem { name: "curvature", args: "prime", invertible: false },
        /* 6 */ Base::Macro { name: "m:leaf", body: vec![s(0, InvForm::None, OmitForm::None)], text: None },
        /* 7 */
        Base::Macro {
            name: "m:pipe",
            body: vec![
                s(0, InvForm::None, OmitForm::None),
                s(1, InvForm::None, OmitForm::Gt),
                s(2, InvForm::None, OmitForm::Lt),
                s(3, InvForm::None, OmitForm::None),
            ],
            text: None,
        },
        /* 8 */
        Base::Macro {
            name: "m:nest",
            body: vec![s(7, InvForm::Suffix, OmitForm::None), s(0, InvForm::None, OmitForm::None)],
            text: None,
        },
        /* 9 */
        Base::Macro {
            name: "m:tail",
            body: vec![s(0, InvForm::None, OmitForm::None), s(1, InvForm::None, OmitForm::OmitFwd)],
            text: None,
        },
        /* 10 */ Base::Macro { name: "m:neg", body: vec![s(0, InvForm::Suffix, OmitForm::None)], text: None },
        /* 11 */
        Base::Macro {
            name: "m:last",
            body: vec![s(1, InvForm::None, OmitForm::None), s(0, InvForm::Suffix, OmitForm::None)],
            text: None,
        },
        /* 12 */ Base::Macro { name: "m:oneway", body: vec![s(5, InvForm::None, OmitForm::None)], text: None },
        /* 13: a pipeline body starting with `stack`: a private stack inside the macro; equals an axis swap.
               (two steps in the model so that it counts as a pipeline body) */
        Base::Macro {
            name: "m:stk",
            body: vec![s(2, InvForm::None, OmitForm::None), s(14, InvForm::None, OmitForm::None)],
            text: Some("stack push=1,2 | stack pop=1,2"),
        },
        /* 14 */ Base::Elem { name: "noop", args: "", invertible: true },
        // single-step bodies carrying a directional modifier: the same step whether written bare,
        // with the sugar (which makes the body a pipeline) or around another macro
        /* 15 */ Base::Macro { name: "m:skipf", body: vec![s(0, InvForm::None, OmitForm::OmitFwd)], text: None },
        /* 16 */ Base::Macro { name: "m:skipi", body: vec![s(1, InvForm::Suffix, OmitForm::OmitInv)], text: None },
        /* 17 */ Base::Macro { name: "m:ltone", body: vec![s(0, InvForm::None, OmitForm::Lt)], text: None },
        /* 18 */ Base::Macro { name: "m:wskip", body: vec![s(7, InvForm::None, OmitForm::OmitInv)], text: None },
        // pipeline bodies with a one-way step: not invertible, unless that step is left out inverse
        /* 19 */
        Base::Macro {
            name: "m:owpipe",
            body: vec![s(0, InvForm::None, OmitForm::None), s(5, InvForm::None, OmitForm::None)],
            text: None,
        },
        /* 20 */
        Base::Macro {
            name: "m:owomit",
            body: vec![s(0, InvForm::None, OmitForm::None), s(5, InvForm::None, OmitForm::OmitInv)],
            text: None,
        },
        // a step that fails every tuple without destroying all of it (a user-registered operator: x becomes NaN,
        // count 0): the steps after it still run, and what they do to the other elements shows
        /* 21 */ Base::Elem { name: "failall", args: "", invertible: true },
    ]
}

// ----- the user-registered operator of base 21 ---------------------------------------------------

fn failall_apply(_op: &Op, _ctx: &dyn Context, operands: &mut dyn CoordinateSet) -> usize {
    for i in 0..operands.len() {
        let mut c = operands.get_coord(i);
        c[0] = f64::NAN;
        operands.set_coord(i, &c);
    }
    0
}
const FAILALL_GAMUT: [OpParameter; 1] = [OpParameter::Flag { key: "inv" }];
fn failall_new(parameters: &RawParameters, ctx: &dyn Context) -> Result<Op, Error> {
    Op::plain(parameters, InnerOp(failall_apply), Some(InnerOp(failall_apply)), &FAILALL_GAMUT, ctx)
}

fn base_name(b: &Base) -> &'static str {
    match b {
        Base::Elem { name, .. } => name,
        Base::Macro { name, .. } => name,
    }
}

/// Render one step (without its leading separator). Returns (separator, text)
pub fn render_step(bases: &[Base], st: &Step) -> (&'static str, String) {
    let (name, args) = match &bases[st.base] {
        Base::Elem { name, args, .. } => (*name, *args),
        Base::Macro { name, .. } => (*name, ""),
    };
    let mut pre: Vec<&str> = Vec::new();
    let mut mid: Vec<&str> = Vec::new();
    let mut post: Vec<&str> = Vec::new();
    match st.inv {
        InvForm::None => {}
        InvForm::Suffix => post.push("inv"),
        InvForm::Prefix => pre.push("inv"),
        InvForm::Infix => mid.push("inv"),
        InvForm::EqTrue => post.push("inv=true"),
        InvForm::PrefixEqTrue => pre.push("inv=true"),
    }
    let mut sep = "|";
    match st.omit {
        OmitForm::None => {}
        OmitForm::OmitFwd => post.push("omit_fwd"),
        OmitForm::OmitInv => post.push("omit_inv"),
        OmitForm::OmitFwdTrue => post.push("omit_fwd=true"),
        OmitForm::Lt => sep = "<",
        OmitForm::Gt => sep = ">",
        OmitForm::Both => {
            post.push("omit_fwd");
            post.push("omit_inv");
        }
    }
    let mut parts: Vec<&str> = Vec::new();
    parts.extend(pre);
    parts.push(name);
    parts.extend(mid);
    if !args.is_empty() {
        parts.push(args);
    }
    parts.extend(post);
    (sep, parts.join(" "))
}

pub fn render(bases: &[Base], prog: &[Step]) -> String {
    let mut out = String::new();
    for (i, st) in prog.iter().enumerate() {
        let (sep, text) = render_step(bases, st);
        if i > 0 || sep != "|" || prog.len() == 1 {
            // a one-step program is still written as a pipeline: "| step"
            if !out.is_empty() {
                out.push(' ');
            }
            out.push_str(sep);
            out.push(' ');
        }
        out.push_str(&text);
    }
    out
}

impl Step {
    fn inverted(&self) -> bool {
        self.inv != InvForm::None
    }
    fn omit_fwd(&self) -> bool {
        matches!(self.omit, OmitForm::OmitFwd | OmitForm::OmitFwdTrue | OmitForm::Lt | OmitForm::Both)
    }
    fn omit_inv(&self) -> bool {
        matches!(self.omit, OmitForm::OmitInv | OmitForm::Gt | OmitForm::Both)
    }
}

// ----- Reference interpreter -----------------------------------------------------------------

pub struct Reference {
    pub ctx: Minimal,
    /// stand-alone instantiation of every elementary base
    pub elems: Vec<Option<OpHandle>>,
}

impl Reference {
    pub fn new(bases: &[Base]) -> Reference {
        let mut ctx = Minimal::default();
        ctx.register_op("failall", OpConstructor(failall_new));
        let elems = bases
            .iter()
            .map(|b| match b {
                Base::Elem { name, args, .. } => Some(ctx.op(&format!("{name} {args}")).expect("elementary base must instantiate")),
                _ => None,
            })
            .collect();
        Reference { ctx, elems }
    }

    /// Is the program instantiable according to the documented rules?
    /// (inv on a one-way operator - elementary, macro or pipeline - is an error. A pipeline is
    /// one-way when one of the steps it executes in the inverse direction is)
    fn step_invertible(&self, bases: &[Base], st: &Step) -> bool {
        match &bases[st.base] {
            Base::Elem { invertible, .. } => *invertible,
            Base::Macro { body, .. } => {
                if is_pipeline_body(body) {
                    self.prog_invertible(bases, body)
                } else {
                    self.step_invertible(bases, &body[0])
                }
            }
        }
    }
    pub fn prog_invertible(&self, bases: &[Base], prog: &[Step]) -> bool {
        prog.iter().all(|st| st.omit_inv() || self.step_invertible(bases, st))
    }
    pub fn instantiable(&self, bases: &[Base], prog: &[Step]) -> bool {
        prog.iter().all(|st| {
            (!st.inverted() || self.step_invertible(bases, st))
                && match &bases[st.base] {
                    Base::Macro { body, .. } => self.instantiable(bases, body),
                    _ => true,
                }
        })
    }

    fn exec_step(&self, bases: &[Base], st: &Step, fwd: bool, data: &mut Vec<Coor4D>) -> usize {
        let d = fwd != st.inverted();
        match &bases[st.base] {
            Base::Elem { invertible, .. } => {
                if !d && !invertible {
                    return 0; // unsupported inverse of a one-way operator: zero, data untouched
                }
                let h = self.elems[st.base].unwrap();
                self.ctx.apply(h, if d { Fwd } else { Inv }, data).unwrap()
            }
            // a macro is its body, the directional modifiers of a single-step body included
            Base::Macro { body, .. } => self.exec_prog(bases, body, d, data),
        }
    }

    pub fn exec_prog(&self, bases: &[Base], prog: &[Step], fwd: bool, data: &mut Vec<Coor4D>) -> usize {
        if !fwd && !self.prog_invertible(bases, prog) {
            return 0; // unsupported inverse of a one-way pipeline: zero, data untouched
        }
        let mut n = usize::MAX;
        let order: Vec<&Step> = if fwd { prog.iter().collect() } else { prog.iter().rev().collect() };
        for st in order {
            if fwd && st.omit_fwd() || !fwd && st.omit_inv() {
                continue;
            }
            n = n.min(self.exec_step(bases, st, fwd, data));
        }
        if n == usize::MAX {
            n = data.len();
        }
        n
    }
}

/// A body is a pipeline when it has several steps, or when its only step is introduced by < or >
pub fn is_pipeline_body(body: &[Step]) -> bool {
    body.len() > 1 || matches!(body[0].omit, OmitForm::Lt | OmitForm::Gt)
}

pub const PROBE: [C4; 3] = [
    [0.1875, 0.9375, 100.5, 2001.25],
    [-0.4375, 0.3125, -12.75, 1995.5],
    [1.3125, -0.8125, 3.25, 2030.0],
];

pub fn new_ctx(bases: &[Base]) -> Minimal {
    let mut ctx = Minimal::default();
    ctx.register_op("failall", OpConstructor(failall_new));
    for b in bases {
        if let Base::Macro { name, body, text } = b {
            let rendered = render(bases, body);
            // a single-step body is registered as that step, not as a pipeline
            let text = text.map(|t| t.to_string()).unwrap_or(rendered.trim_start_matches("| ").to_string());
            ctx.register_resource(name, &text);
        }
    }
    ctx
}

/// Compare the real pipeline against the reference interpreter. Err((clause, detail))
pub fn check_program(bases: &[Base], reference: &Reference, prog: &[Step]) -> Result<u64, (String, Value)> {
    check_text(bases, reference, prog, render(bases, prog))
}

/// A single step given as the whole definition, without any pipeline syntax around it
pub fn check_bare(bases: &[Base], reference: &Reference, st: &Step) -> Result<u64, (String, Value)> {
    check_text(bases, reference, std::slice::from_ref(st), render_step(bases, st).1)
}

fn check_text(bases: &[Base], reference: &Reference, prog: &[Step], text: String) -> Result<u64, (String, Value)> {
    let mut ctx = new_ctx(bases);
    let expected_ok = reference.instantiable(bases, prog);
    let op = match catch(|| ctx.op(&text)) {
        Err(p) => return Err((format!("panic at instantiation: {}", panic_class(&p)), json!({"definition": text, "panic": p}))),
        Ok(Err(e)) => {
            if expected_ok {
                return Err(("valid pipeline rejected".into(), json!({"definition": text, "error": e.to_string()})));
            }
            return Ok(1);
        }
        // inv on a one-way step: the library may refuse it (Err above) or accept it; if accepted
        // it must behave "as that step with the two directions exchanged" (checked below)
        Ok(Ok(op)) => op,
    };
    let mut h = 0u64;
    for fwd in [true, false] {
        let mut exp = to_set(&PROBE);
        let en = reference.exec_prog(bases, prog, fwd, &mut exp);
        let mut got = to_set(&PROBE);
        let gn = match catch(|| ctx.apply(op, if fwd { Fwd } else { Inv }, &mut got)) {
            Ok(Ok(n)) => n,
            Ok(Err(e)) => return Err(("apply returned an error".into(), json!({"definition": text, "error": e.to_string()}))),
            Err(p) => return Err((format!("panic in apply: {}", panic_class(&p)), json!({"definition": text, "fwd": fwd, "panic": p}))),
        };
        let (e4, g4) = (from_set(&exp), from_set(&got));
        h = hash_of(&(h, gn, g4.iter().map(|c| bits4(*c)).collect::<Vec<_>>()));
        if !same_bits(&e4, &g4) {
            return Err((
                format!("{} result differs from step-by-step application", if fwd { "forward" } else { "inverse" }),
                json!({"definition": text, "direction": if fwd {"fwd"} else {"inv"}, "expected": format!("{e4:?}"), "observed": format!("{g4:?}"), "expected_count": en, "observed_count": gn}),
            ));
        }
        if en != gn {
            return Err((
                format!("{} count is not the minimum over the executed steps", if fwd { "forward" } else { "inverse" }),
                json!({"definition": text, "direction": if fwd {"fwd"} else {"inv"}, "expected_count": en, "observed_count": gn}),
            ));
        }
    }
    Ok(h)
}

/// Greedy reduction: drop steps, then drop modifiers, while the same clause fails
pub fn minimise(bases: &[Base], reference: &Reference, prog: &[Step], clause: &str) -> Vec<Step> {
    let fails = |p: &[Step]| matches!(check_program(bases, reference, p), Err((c, _)) if c == clause);
    let mut cur = prog.to_vec();
    loop {
        let mut changed = false;
        if cur.len() > 1 {
            for i in 0..cur.len() {
                let mut t = cur.clone();
                t.remove(i);
                if fails(&t) {
                    cur = t;
                    changed = true;
                    break;
                }
            }
        }
        if !changed {
            for i in 0..cur.len() {
                if cur[i].inv != InvForm::None {
                    let mut t = cur.clone();
                    t[i].inv = InvForm::None;
                    if fails(&t) {
                        cur = t;
                        changed = true;
                        break;
                    }
                }
                if cur[i].omit != OmitForm::None {
                    let mut t = cur.clone();
                    t[i].omit = OmitForm::None;
                    if fails(&t) {
                        cur = t;
                        changed = true;
                        break;
                    }
                }
                // prefer the simplest base
                if cur[i].base != 0 {
                    let mut t = cur.clone();
                    t[i].base = 0;
                    if fails(&t) {
                        cur = t;
                        changed = true;
                        break;
                    }
                }
            }
        }
        if !changed {
            break;
        }
    }
    cur
}

fn step_space(bases_idx: &[usize], invs: &[InvForm], omits: &[OmitForm]) -> Vec<Step> {
    let mut v = Vec::new();
    for &b in bases_idx {
        for &i in invs {
            for &o in omits {
                v.push(Step { base: b, inv: i, omit: o });
            }
        }
    }
    v
}

fn enumerate(rep: &Report, bases: &[Base], steps: &[Step], len: usize, label: &str) {
    let a = steps.len();
    let total = a.pow(len as u32);
    let radix = vec![a; len];
    let outcomes = Mutex::new(HashSet::new());
    thread_local! { static REF: std::cell::RefCell<Option<Reference>> = const { std::cell::RefCell::new(None) }; }
    par_range(total, |i| {
        REF.with(|r| {
            let mut r = r.borrow_mut();
            if r.is_none() {
                *r = Some(Reference::new(bases));
            }
            let reference = r.as_ref().unwrap();
            let idx = decode(i, &radix);
            let prog: Vec<Step> = idx.iter().map(|&j| steps[j].clone()).collect();
            rep.eval(1);
            rep.state(1);
            rep.transition(len as u64);
            rep.trace(1);
            match check_program(bases, reference, &prog) {
                Ok(h) => {
                    outcomes.lock().unwrap().insert(h);
                    if i == 0 || i == total / 2 || i == total - 1 {
                        rep.sample(json!({"space": label, "index": i, "definition": render(bases, &prog)}));
                    }
                }
                Err((clause, detail)) => {
                    let min = minimise(bases, reference, &prog, &clause);
                    let key = format!("{clause} / minimal: {}", render(bases, &min));
                    let mut d = detail;
                    d["minimal"] = json!(render(bases, &min));
                    d["minimal_steps"] = json!(min.iter().map(|s| (s.base, format!("{:?}", s.inv), format!("{:?}", s.omit))).collect::<Vec<_>>());
                    d["found_in"] = json!(render(bases, &prog));
                    rep.violation(&key, d);
                }
            }
        })
    });
    let o = outcomes.into_inner().unwrap();
    rep.nontrivial_bulk(&o);
    rep.outcomes_bulk(&o);
    rep.add_to("program_spaces", json!({"label": label, "step_variants": a, "length": len, "programs": total}));
}

/// Every step variant as a definition of its own (no pipeline syntax, hence no sugar)
fn enumerate_bare(rep: &Report, bases: &[Base], steps: &[Step]) {
    let reference = Reference::new(bases);
    let mut outcomes = HashSet::new();
    let mut n = 0;
    for st in steps.iter().filter(|st| !matches!(st.omit, OmitForm::Lt | OmitForm::Gt)) {
        n += 1;
        rep.eval(1);
        rep.state(1);
        rep.transition(1);
        rep.trace(1);
        match check_bare(bases, &reference, st) {
            Ok(h) => {
                outcomes.insert(h);
            }
            Err((clause, mut d)) => {
                let text = render_step(bases, st).1;
                d["bare"] = json!(true);
                d["minimal"] = json!(text);
                d["minimal_steps"] = json!([(st.base, format!("{:?}", st.inv), format!("{:?}", st.omit))]);
                let kind = if matches!(bases[st.base], Base::Elem { .. }) { "elementary" } else { "macro" };
                rep.violation(&format!("{clause} / single {kind} step without pipeline syntax"), d);
            }
        }
    }
    rep.nontrivial_bulk(&outcomes);
    rep.outcomes_bulk(&outcomes);
    rep.add_to("program_spaces", json!({"label": "bare single steps", "step_variants": n, "length": 1, "programs": n}));
}

const ALL_INV: [InvForm; 6] = [InvForm::None, InvForm::Suffix, InvForm::Prefix, InvForm::Infix, InvForm::EqTrue, InvForm::PrefixEqTrue];
const ALL_OMIT: [OmitForm; 7] = [OmitForm::None, OmitForm::OmitFwd, OmitForm::OmitInv, OmitForm::OmitFwdTrue, OmitForm::Lt, OmitForm::Gt, OmitForm::Both];

pub fn run(tier: Tier) -> Report {
    let rep = Report::new("C03", tier, "model_checking");
    rep.rule("every pipeline of length 1..L over (base step x inv form x omit form), complete product; each compared in both \
              directions on a 3-tuple probe with a reference interpreter that applies stand-alone instantiations of the elementary steps \
              one after another (macros by recursive expansion of their body tree). Non-trivial/distinct = distinct observed result hash");
    rep.assume("the reference interpreter's composition rules are a transcription of the property statement; elementary operators are instantiated through the same library (only composition is judged here)");
    let bases = bases();
    rep.set("bases", json!(bases.iter().map(|b| match b {
        Base::Elem { name, args, .. } => format!("{name} {args}"),
        Base::Macro { name, body, .. } => format!("{name} := {}", render(&bases, body)),
    }).collect::<Vec<_>>()));
    let all: Vec<usize> = (0..bases.len()).collect();
    let full = step_space(&all, &ALL_INV, &ALL_OMIT);
    let reduced = step_space(
        &[0, 1, 5, 7, 8, 9, 11, 15, 21],
        &[InvForm::None, InvForm::Suffix, InvForm::Prefix],
        &[OmitForm::None, OmitForm::OmitFwd, OmitForm::Gt],
    );
    let tiny = step_space(&[0, 1, 7, 8, 9], &[InvForm::None, InvForm::Suffix], &[OmitForm::None, OmitForm::Lt, OmitForm::OmitInv]);
    enumerate_bare(&rep, &bases, &full);
    enumerate(&rep, &bases, &full, 1, "full^1");
    enumerate(&rep, &bases, &full, 2, "full^2");
    match tier {
        Tier::Quick => {
            enumerate(&rep, &bases, &reduced, 3, "reduced^3");
        }
        Tier::Thorough => {
            // (full^3 is 91 M programs and takes more than an hour; the length-3 space keeps every base step
            // and drops only spellings that full^2 already distinguishes)
            let wide = step_space(&all, &[InvForm::None, InvForm::Suffix, InvForm::Prefix], &[OmitForm::None, OmitForm::OmitFwd, OmitForm::OmitInv, OmitForm::Gt]);
            let micro = step_space(&[0, 7, 9], &[InvForm::None, InvForm::Suffix], &[OmitForm::None, OmitForm::Lt]);
            enumerate(&rep, &bases, &wide, 3, "wide^3");
            enumerate(&rep, &bases, &tiny, 4, "tiny^4");
            enumerate(&rep, &bases, &micro, 5, "micro^5");
        }
    }
    rep
}

pub fn replay(case: &Value) -> Result<String, String> {
    let bases = bases();
    let reference = Reference::new(&bases);
    let mut prog = Vec::new();
    for s in case["minimal_steps"].as_array().cloned().unwrap_or_default() {
        let base = s[0].as_u64().unwrap_or(0) as usize;
        let inv = ALL_INV.iter().find(|f| format!("{f:?}") == s[1].as_str().unwrap_or("")).copied().unwrap_or(InvForm::None);
        let omit = ALL_OMIT.iter().find(|f| format!("{f:?}") == s[2].as_str().unwrap_or("")).copied().unwrap_or(OmitForm::None);
        prog.push(Step { base, inv, omit });
    }
    let _ = base_name;
    let r = if case["bare"].as_bool() == Some(true) && prog.len() == 1 { check_bare(&bases, &reference, &prog[0]) } else { check_program(&bases, &reference, &prog) };
    match r {
        Ok(_) => Ok(render(&bases, &prog)),
        Err((c, d)) => Err(format!("{c}: {d}")),
    }
}
