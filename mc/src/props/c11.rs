//! C11 — adapt, axisswap and unitconvert do exactly the declared reordering and scaling.
//! Complete enumeration: all 1920 x 1920 adapt from/to pairs, all 4096 x (5 valid + 7 invalid
//! suffixes) descriptor words for acceptance, all 442 signed partial permutations and every index
//! list of length <= 5 over -5..5 for axisswap, all ordered unit pairs for unitconvert.
//! Oracle: table-driven reference written from the documentation.

use crate::engine::*;
use crate::util::*;
use geodesy::authoring::*;
use serde_json::{json, Value};
use std::collections::HashSet;
use std::sync::Mutex;

const PROBE: C4 = [1.2345678901234567, -2.718281828459045, 37.25, 2020.5];
const LETTERS: [char; 8] = ['e', 'n', 'u', 'f', 'w', 's', 'd', 'p'];
const VALID_SUFFIXES: [&str; 5] = ["", "_rad", "_deg", "_gon", "_any"];
const INVALID_SUFFIXES: [&str; 7] = ["_foo", "_DEG", "_de", "deg", "_degx", "_", "_grad"];

#[derive(Clone, Debug)]
pub struct Desc {
    pub text: String,
    pub axes: [usize; 4],
    pub signs: [f64; 4],
    pub torad: f64,
}

pub fn parse_desc(text: &str) -> Option<Desc> {
    let (word, suffix) = if text.len() >= 4 && text.is_char_boundary(4) { text.split_at(4) } else { return None };
    let torad = match suffix {
        "" | "_rad" | "_any" => 1.0,
        "_deg" => std::f64::consts::PI / 180.,
        "_gon" => std::f64::consts::PI / 200.,
        _ => return None,
    };
    let mut axes = [0usize; 4];
    let mut signs = [1f64; 4];
    let mut seen = [false; 4];
    for (i, ch) in word.chars().enumerate() {
        let k = LETTERS.iter().position(|c| *c == ch)?;
        axes[i] = k % 4;
        signs[i] = if k >= 4 { -1. } else { 1. };
        if seen[k % 4] {
            return None;
        }
        seen[k % 4] = true;
    }
    Some(Desc { text: text.to_string(), axes, signs, torad })
}

impl Desc {
    /// unit factor of external position i; `positional`: the angular unit belongs to the first two
    /// positions, otherwise to the horizontal (e/n/w/s) elements wherever they are
    fn factor(&self, i: usize, positional: bool) -> f64 {
        let angular = if positional { i < 2 } else { self.axes[i] < 2 };
        if angular {
            self.torad
        } else {
            1.0
        }
    }
    fn is_pure(&self) -> bool {
        self.torad == 1.0
    }
    fn horizontal_first(&self) -> bool {
        self.axes[0] < 2 && self.axes[1] < 2
    }
    fn class(&self) -> String {
        format!(
            "{}{}{}{}",
            if self.axes != [0, 1, 2, 3] { "P" } else { "-" },
            if self.signs != [1.; 4] { "S" } else { "-" },
            if self.torad != 1. { "U" } else { "-" },
            if self.horizontal_first() { "" } else { "h" }
        )
    }
}

/// from external representation A to external representation B
pub fn model_adapt(a: &Desc, b: &Desc, x: C4, positional: bool) -> C4 {
    let mut internal = [0f64; 4];
    for i in 0..4 {
        internal[a.axes[i]] = x[i] * (a.signs[i] * a.factor(i, positional));
    }
    let mut out = [0f64; 4];
    for j in 0..4 {
        out[j] = internal[b.axes[j]] / (b.signs[j] * b.factor(j, positional));
    }
    out
}

fn close(a: f64, b: f64) -> bool {
    if bits(a) == bits(b) {
        return true;
    }
    (a - b).abs() <= 4. * f64::EPSILON * a.abs().max(b.abs())
}
fn close4(a: C4, b: C4) -> bool {
    (0..4).all(|i| close(a[i], b[i]))
}
fn same4(a: C4, b: C4) -> bool {
    (0..4).all(|i| bits(a[i]) == bits(b[i]))
}

pub fn all_descriptors() -> Vec<Desc> {
    let mut v = Vec::new();
    for w in 0..4096usize {
        let idx = decode(w, &[8, 8, 8, 8]);
        let word: String = idx.iter().map(|&i| LETTERS[i]).collect();
        for s in VALID_SUFFIXES {
            if let Some(d) = parse_desc(&format!("{word}{s}")) {
                v.push(d);
            }
        }
    }
    v
}

fn run_op(ctx: &Minimal, def: &str, dir: Direction, x: C4) -> Result<Result<(usize, C4), String>, String> {
    catch(|| {
        let op = Op::new(def, ctx).map_err(|e| e.to_string())?;
        let mut data = [Coor4D(x)];
        let n = op.apply(ctx, &mut data, dir);
        Ok((n, data[0].0))
    })
}

fn adapt_pairs(rep: &Report, descs: &[Desc]) {
    let n = descs.len();
    let outcomes = Mutex::new(HashSet::new());
    par_range(n * n, |k| {
        let (a, b) = (&descs[k % n], &descs[k / n]);
        let ctx = Minimal::default();
        let def = format!("adapt from={} to={}", a.text, b.text);
        rep.eval(1);
        let detail = |what: &str, got: &dyn std::fmt::Debug, exp: &dyn std::fmt::Debug| json!({"kind": "adapt", "definition": def, "input": PROBE, "what": what, "observed": format!("{got:?}"), "expected": format!("{exp:?}")});
        let cls = format!("from[{}] to[{}]", a.class(), b.class());
        let fwd = match run_op(&ctx, &def, Fwd, PROBE) {
            Err(p) => return rep.violation(&format!("adapt: panic {}", panic_class(&p)), json!({"kind": "adapt", "definition": def, "panic": p})),
            Ok(Err(e)) => return rep.violation(&format!("adapt: valid descriptor pair rejected / {cls}"), json!({"kind": "adapt", "definition": def, "error": e})),
            Ok(Ok(r)) => r,
        };
        let exp_arch = model_adapt(a, b, PROBE, false);
        let exp_pos = model_adapt(a, b, PROBE, true);
        let pure = a.is_pure() && b.is_pure();
        let ok = if pure { same4(fwd.1, exp_arch) } else { close4(fwd.1, exp_arch) || close4(fwd.1, exp_pos) };
        if !ok || fwd.0 != 1 {
            return rep.violation(&format!("adapt: forward result is not the declared reordering/sign/unit mapping / {cls}"), detail("fwd", &fwd, &exp_arch));
        }
        // inverse is the exact reverse mapping
        let inv = match run_op(&ctx, &def, Inv, fwd.1) {
            Ok(Ok(r)) => r,
            other => return rep.violation(&format!("adapt: inverse fails / {cls}"), json!({"kind": "adapt", "definition": def, "result": format!("{other:?}")})),
        };
        let ok = if pure { same4(inv.1, PROBE) } else { close4(inv.1, PROBE) };
        if !ok || inv.0 != 1 {
            return rep.violation(&format!("adapt: inverse is not the reverse mapping / {cls}"), detail("inv(fwd(x))", &inv, &PROBE));
        }
        outcomes.lock().unwrap().insert(hash_of(&bits4(fwd.1)));
        if k == 0 || k == n * n / 2 + 17 || k == n * n - 1 {
            rep.sample(json!({"definition": def, "input": PROBE, "forward": fwd.1}));
        }
    });
    let o = outcomes.into_inner().unwrap();
    rep.nontrivial_bulk(&o);
    rep.outcomes_bulk(&o);
    rep.set("adapt_pairs", json!(n * n));
    rep.set("adapt_valid_descriptors", json!(n));
}

fn adapt_acceptance(rep: &Report) {
    let suffixes: Vec<&str> = VALID_SUFFIXES.iter().chain(INVALID_SUFFIXES.iter()).copied().collect();
    let total = 4096 * suffixes.len();
    par_range(total, |k| {
        let w = k % 4096;
        let s = suffixes[k / 4096];
        let idx = decode(w, &[8, 8, 8, 8]);
        let word: String = idx.iter().map(|&i| LETTERS[i]).collect();
        let text = format!("{word}{s}");
        let expect = parse_desc(&text).is_some();
        let ctx = Minimal::default();
        for key in ["from", "to"] {
            rep.eval(1);
            let def = format!("adapt {key}={text}");
            match catch(|| Op::new(&def, &ctx).is_ok()) {
                Err(p) => rep.violation(&format!("adapt: panic {}", panic_class(&p)), json!({"kind": "adapt-accept", "definition": def, "panic": p})),
                Ok(got) if got != expect => rep.violation(
                    &format!("adapt: descriptor {} / suffix '{s}' {key}", if expect { "valid but rejected" } else { "invalid but accepted" }),
                    json!({"kind": "adapt-accept", "definition": def, "expected_accept": expect}),
                ),
                _ => {}
            }
        }
    });
    // a few more invalid shapes
    for text in ["", "e", "enu", "enuff", "enufenuf", "ENUF", "enu f", "enuf_deg_deg", "1234", "pass_deg"] {
        let ctx = Minimal::default();
        rep.eval(1);
        let def = format!("adapt from={text}");
        match catch(|| Op::new(&def, &ctx).is_ok()) {
            Err(p) => rep.violation(&format!("adapt: panic {}", panic_class(&p)), json!({"kind": "adapt-accept", "definition": def, "panic": p})),
            Ok(true) if !text.is_empty() => rep.violation(&format!("adapt: invalid descriptor accepted: '{text}'"), json!({"kind": "adapt-accept", "definition": def, "expected_accept": false})),
            _ => {}
        }
    }
    rep.set("adapt_acceptance_words", json!(total));
}

fn adapt_to_vs_inv_from(rep: &Report, descs: &[Desc]) {
    par_range(descs.len(), |k| {
        let d = &descs[k];
        let ctx = Minimal::default();
        for dir in [Fwd, Inv] {
            rep.eval(1);
            let dn = dir_name(&dir);
            let d2 = if dir == Fwd { Fwd } else { Inv };
            let a = run_op(&ctx, &format!("adapt to={}", d.text), dir, PROBE);
            let b = run_op(&ctx, &format!("adapt inv from={}", d.text), d2, PROBE);
            match (&a, &b) {
                (Ok(Ok(x)), Ok(Ok(y))) if x.0 == y.0 && (if d.is_pure() { same4(x.1, y.1) } else { close4(x.1, y.1) }) => {}
                _ => rep.violation(
                    &format!("adapt: 'to=X' differs from 'inv from=X' / X[{}] {dn}", d.class()),
                    json!({"kind": "adapt-toinv", "descriptor": d.text, "direction": dn, "to": format!("{a:?}"), "inv_from": format!("{b:?}")}),
                ),
            }
        }
    });
    // the eight built-in adaptor macros
    let expect: [(&str, &str, bool); 8] = [
        ("geo:in", "neuf_deg", true),
        ("geo:out", "neuf_deg", false),
        ("gis:in", "enuf_deg", true),
        ("gis:out", "enuf_deg", false),
        ("neu:in", "neuf", true),
        ("neu:out", "neuf", false),
        ("enu:in", "enuf", true),
        ("enu:out", "enuf", false),
    ];
    let internal = parse_desc("enuf").unwrap();
    for (name, desc, is_in) in expect {
        let d = parse_desc(desc).unwrap();
        let ctx = Minimal::new();
        rep.eval(1);
        let exp = if is_in { model_adapt(&d, &internal, PROBE, false) } else { model_adapt(&internal, &d, PROBE, false) };
        match run_op(&ctx, name, Fwd, PROBE) {
            Ok(Ok((1, got))) if close4(got, exp) => {}
            other => rep.violation(&format!("adapt: built-in adaptor {name} is not {desc}"), json!({"kind": "adaptor", "name": name, "observed": format!("{other:?}"), "expected": exp})),
        }
    }
}

// ----- axisswap --------------------------------------------------------------------------------

fn axisswap_valid(order: &[i64]) -> bool {
    let k = order.len();
    if k == 0 || k > 4 {
        return false;
    }
    let mut seen = [false; 5];
    for &o in order {
        let a = o.unsigned_abs() as usize;
        if a == 0 || a > k || seen[a] {
            return false;
        }
        seen[a] = true;
    }
    true
}

fn axisswap(rep: &Report) {
    let mut lists: Vec<Vec<i64>> = Vec::new();
    for len in 1..=5usize {
        let total = 11usize.pow(len as u32);
        for i in 0..total {
            lists.push(decode(i, &vec![11; len]).iter().map(|&d| d as i64 - 5).collect());
        }
    }
    let valid_count = lists.iter().filter(|l| axisswap_valid(l)).count();
    rep.set("axisswap_lists", json!(lists.len()));
    rep.set("axisswap_valid_lists", json!(valid_count));
    let outcomes = Mutex::new(HashSet::new());
    par_range(lists.len(), |k| {
        let order = &lists[k];
        let text = order.iter().map(|o| o.to_string()).collect::<Vec<_>>().join(",");
        let def = format!("axisswap order={text}");
        let ctx = Minimal::default();
        rep.eval(1);
        let valid = axisswap_valid(order);
        let r = run_op(&ctx, &def, Fwd, PROBE);
        match (&r, valid) {
            (Err(p), _) => rep.violation(&format!("axisswap: panic {}", panic_class(p)), json!({"kind": "axisswap", "definition": def, "panic": p})),
            (Ok(Err(_)), false) => {}
            (Ok(Ok(_)), false) => rep.violation(
                &format!("axisswap: invalid index list accepted (length {})", order.len()),
                json!({"kind": "axisswap", "definition": def}),
            ),
            (Ok(Err(e)), true) => rep.violation("axisswap: valid signed permutation rejected", json!({"kind": "axisswap", "definition": def, "error": e})),
            (Ok(Ok((n, got))), true) => {
                let mut exp = PROBE;
                for (i, &o) in order.iter().enumerate() {
                    exp[i] = PROBE[o.unsigned_abs() as usize - 1] * if o < 0 { -1. } else { 1. };
                }
                if *n != 1 || !same4(*got, exp) {
                    return rep.violation("axisswap: forward is not the documented signed permutation", json!({"kind": "axisswap", "definition": def, "observed": got, "expected": exp}));
                }
                match run_op(&ctx, &def, Inv, *got) {
                    Ok(Ok((1, back))) if same4(back, PROBE) => {}
                    other => rep.violation("axisswap: inverse is not the exact reverse mapping", json!({"kind": "axisswap", "definition": def, "observed": format!("{other:?}")})),
                }
                outcomes.lock().unwrap().insert(hash_of(&bits4(*got)));
                if order.len() == 4 && order[0] == 4 && order[1] == -3 {
                    rep.sample(json!({"definition": def, "input": PROBE, "forward": got}));
                }
            }
        }
    });
    let o = outcomes.into_inner().unwrap();
    rep.set("axisswap_distinct_valid_outcomes", json!(o.len()));
    rep.nontrivial_bulk(&o);
    rep.outcomes_bulk(&o);
    // no order given: identity
    let ctx = Minimal::default();
    if !matches!(run_op(&ctx, "axisswap", Fwd, PROBE), Ok(Ok((1, g))) if same4(g, PROBE)) {
        rep.violation("axisswap: default order is not the identity", json!({"kind": "axisswap", "definition": "axisswap"}));
    }
}

// ----- unitconvert -----------------------------------------------------------------------------

/// PROJ's units.c (linear) and the three angular units
pub const REF_LINEAR: [(&str, f64); 21] = [
    ("km", 1000.0),
    ("m", 1.0),
    ("dm", 0.1),
    ("cm", 0.01),
    ("mm", 0.001),
    ("kmi", 1852.0),
    ("in", 0.0254),
    ("ft", 0.3048),
    ("yd", 0.9144),
    ("mi", 1609.344),
    ("fath", 1.8288),
    ("ch", 20.1168),
    ("link", 0.201168),
    ("us-in", 100.0 / 3937.0),
    ("us-ft", 1200.0 / 3937.0),
    ("us-yd", 3600.0 / 3937.0),
    ("us-ch", 79200.0 / 3937.0),
    ("us-mi", 6336000.0 / 3937.0),
    ("ind-yd", 0.91439523),
    ("ind-ft", 0.30479841),
    ("ind-ch", 20.11669506),
];
pub const REF_ANGULAR: [(&str, f64); 3] = [("rad", 1.0), ("deg", std::f64::consts::PI / 180.), ("grad", std::f64::consts::PI / 200.)];

fn unitconvert(rep: &Report) {
    // table hygiene through hook H3
    let (lin, ang) = geodesy::verif::unit_tables();
    let mut names = HashSet::new();
    for (n, _) in lin.iter().chain(ang.iter()) {
        if !names.insert(*n) {
            rep.violation(&format!("unitconvert: unit name '{n}' listed twice (one of the entries can never be reached)"), json!({"kind": "unit-table", "name": n}));
        }
    }
    for (n, _) in lin.iter().chain(ang.iter()) {
        if !REF_LINEAR.iter().chain(REF_ANGULAR.iter()).any(|(r, _)| r == n) {
            println!("UNCOVERED unit={n} (no reference factor in the harness table)");
            rep.add_to("uncovered", json!(format!("unit {n}")));
        }
    }
    let xy_units: Vec<(&str, f64)> = REF_LINEAR.iter().chain(REF_ANGULAR.iter()).copied().collect();
    let z_units: Vec<(&str, f64)> = REF_LINEAR.to_vec();
    let outcomes = Mutex::new(HashSet::new());
    let nxy = xy_units.len();
    let nz = z_units.len();
    let total = nxy * nxy + nz * nz;
    par_range(total, |k| {
        let (def, fa, fb, xy) = if k < nxy * nxy {
            let (a, b) = (xy_units[k % nxy], xy_units[k / nxy]);
            (format!("unitconvert xy_in={} xy_out={}", a.0, b.0), a, b, true)
        } else {
            let k = k - nxy * nxy;
            let (a, b) = (z_units[k % nz], z_units[k / nz]);
            (format!("unitconvert z_in={} z_out={}", a.0, b.0), a, b, false)
        };
        let ctx = Minimal::default();
        rep.eval(1);
        let ratio = fa.1 / fb.1;
        let mut exp = PROBE;
        if xy {
            exp[0] *= ratio;
            exp[1] *= ratio;
        } else {
            exp[2] *= ratio;
        }
        let cls = |u: &str| if u == "mi" { "mi".to_string() } else { "*".to_string() };
        match run_op(&ctx, &def, Fwd, PROBE) {
            Err(p) => rep.violation(&format!("unitconvert: panic {}", panic_class(&p)), json!({"kind": "unitconvert", "definition": def, "panic": p})),
            Ok(Err(e)) => rep.violation(
                &format!("unitconvert: supported unit rejected ({} -> {})", cls(fa.0), cls(fb.0)),
                json!({"kind": "unitconvert", "definition": def, "error": e}),
            ),
            Ok(Ok((n, got))) => {
                // (the ratio of the two factors, rounded once, times the value: the same bits. In particular a
                // conversion between a unit and itself is the identity, and yd to ft is exactly 3)
                if n != 1 || !same4(got, exp) {
                    return rep.violation(
                        "unitconvert: result is not the ratio of the published unit factors",
                        json!({"kind": "unitconvert", "definition": def, "observed": got, "expected": exp}),
                    );
                }
                match run_op(&ctx, &def, Inv, got) {
                    Ok(Ok((1, back))) if close4(back, PROBE) => {}
                    other => rep.violation("unitconvert: inverse does not undo forward", json!({"kind": "unitconvert", "definition": def, "observed": format!("{other:?}")})),
                }
                outcomes.lock().unwrap().insert(hash_of(&bits4(got)));
                if k == 5 || k == total - 3 {
                    rep.sample(json!({"definition": def, "input": PROBE, "forward": got}));
                }
            }
        }
    });
    // unknown units are rejected
    for u in ["", "furlong", "M", "km ", "deg2", "metre"] {
        for key in ["xy_in", "xy_out", "z_in", "z_out"] {
            let ctx = Minimal::default();
            rep.eval(1);
            let def = format!("unitconvert {key}={u}");
            match run_op(&ctx, &def, Fwd, PROBE) {
                Ok(Err(_)) => {}
                Ok(Ok(_)) if u.is_empty() || u == "km " => {} // empty / trimmed values are a layout matter (C16)
                other => rep.violation(&format!("unitconvert: unknown unit '{u}' not rejected"), json!({"kind": "unitconvert", "definition": def, "observed": format!("{other:?}")})),
            }
        }
    }
    let o = outcomes.into_inner().unwrap();
    rep.set("unitconvert_pairs", json!(total));
    rep.nontrivial_bulk(&o);
    rep.outcomes_bulk(&o);
}

pub fn run(tier: Tier) -> Report {
    let rep = Report::new("C11", tier, "model_checking");
    rep.rule("complete enumeration of the parameter spaces named in the property (adapt 1920x1920 pairs, 4096x12 words, 1920 to/inv-from \
              equivalences, 8 adaptor macros; axisswap all index lists of length<=5 over -5..5; unitconvert all ordered unit pairs), each instance \
              applied to a generic probe tuple and compared with a table-driven reference. Non-trivial/distinct = distinct forward output bit pattern");
    rep.assume("the angular unit of an adapt descriptor is accepted either as belonging to the horizontal (e/n/w/s) elements or to the first two positions; the two readings coincide for all conventional descriptors");
    rep.assume("reference unit factors are transcribed from PROJ's units.c, which the library documentation names as the source");
    let descs = all_descriptors();
    if descs.len() != 1920 {
        rep.machinery_error(format!("descriptor generator produced {} instead of 1920", descs.len()));
        return rep;
    }
    adapt_acceptance(&rep);
    adapt_to_vs_inv_from(&rep, &descs);
    adapt_pairs(&rep, &descs);
    axisswap(&rep);
    unitconvert(&rep);
    // for model_checking level bookkeeping: every enumerated instance is a state of the parameter space,
    // each compared with the reference model
    let e = rep.evaluations.load(std::sync::atomic::Ordering::Relaxed);
    rep.state(e);
    rep.transition(e);
    rep.trace(e);
    rep
}

pub fn replay(case: &Value) -> Result<String, String> {
    let ctx = Minimal::new();
    let def = case["definition"].as_str().or(case["name"].as_str()).unwrap_or("");
    let r = run_op(&ctx, def, Fwd, PROBE);
    Err(format!("recorded violation; raw behaviour now: {def} -> {r:?}; recorded expectation: {}", case.get("expected").unwrap_or(&Value::Null)))
}
