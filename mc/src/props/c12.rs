//! C12 — the stack sub-language behaves as the documented abstract stack machine.
//!
//! Reference model: an abstract stack machine transcribed from Rumination 002
//! (operator `stack`, and the deprecated `push`/`pop`). Explored:
//!  (a) every program up to a length bound over the instruction alphabet, through the
//!      public API (`Context::op` + `apply`), both directions, two operand sets, applied
//!      twice (stack leak), compared with the model bit for bit;
//!  (b) explicit-state BFS over concrete (stack, operands) states, stepping the real
//!      `stack_fwd`/`stack_inv` (hook H5) and the model side by side, so the hidden stack
//!      is compared after every transition;
//!  (c) instantiation-time rejection of an alphabet of ill-formed sub-commands.

use crate::engine::*;
use crate::util::*;
use geodesy::authoring::*;
use serde_json::{json, Value};
use std::collections::{HashSet, VecDeque};
use std::sync::Mutex;

#[derive(Clone, Debug, PartialEq, Eq, Hash)]
pub enum Ins {
    Push(Vec<u8>),
    Pop(Vec<u8>),
    Flip(Vec<u8>),
    Roll(i64, i64),
    Unroll(i64, i64),
    Swap,
    LPush(u8),
    LPop(u8),
    AddOne,
    Swap12,
    /// the instruction carrying the `inv` modifier: the same instruction with the two directions exchanged
    Inv(Box<Ins>),
}

fn list(l: &[u8]) -> String {
    l.iter().map(|x| x.to_string()).collect::<Vec<_>>().join(",")
}
fn flags(m: u8) -> String {
    (0..4)
        .filter(|i| m & (1 << i) != 0)
        .map(|i| format!("v_{}", i + 1))
        .collect::<Vec<_>>()
        .join(" ")
}

impl Ins {
    pub fn text(&self) -> String {
        match self {
            Ins::Push(l) => format!("stack push={}", list(l)),
            Ins::Pop(l) => format!("stack pop={}", list(l)),
            Ins::Flip(l) => format!("stack flip={}", list(l)),
            Ins::Roll(m, n) => format!("stack roll={m},{n}"),
            Ins::Unroll(m, n) => format!("stack unroll={m},{n}"),
            Ins::Swap => "stack swap".to_string(),
            Ins::LPush(m) => format!("push {}", flags(*m)),
            Ins::LPop(m) => format!("pop {}", flags(*m)),
            Ins::AddOne => "addone".to_string(),
            Ins::Swap12 => "axisswap order=2,1".to_string(),
            Ins::Inv(i) => format!("{} inv", i.text()),
        }
    }
}

/// Outcome of a model step
#[derive(Clone, Copy, PartialEq, Debug)]
pub enum StepResult {
    Count(usize),
    /// the documentation leaves this case open (swap on fewer than two elements)
    Unspecified,
    /// legacy pop underflow: count 0, every tuple carries a NaN; exact pattern not specified
    LegacyUnderflow,
}

#[derive(Clone, Debug, PartialEq)]
pub struct Machine {
    pub stack: Vec<Vec<f64>>,
    pub ops: Vec<C4>,
}

impl Machine {
    fn stomp(&mut self) {
        for o in self.ops.iter_mut() {
            *o = [f64::NAN; 4];
        }
    }
    fn push(&mut self, l: &[u8]) -> StepResult {
        for &i in l {
            let col: Vec<f64> = self.ops.iter().map(|o| o[i as usize - 1]).collect();
            self.stack.push(col);
        }
        StepResult::Count(self.ops.len())
    }
    fn pop(&mut self, l: &[u8]) -> StepResult {
        if self.stack.len() < l.len() {
            self.stomp();
            return StepResult::Count(0);
        }
        for &i in l {
            let col = self.stack.pop().unwrap();
            for (o, v) in self.ops.iter_mut().zip(col.iter()) {
                o[i as usize - 1] = *v;
            }
        }
        StepResult::Count(self.ops.len())
    }
    fn flip(&mut self, l: &[u8]) -> StepResult {
        if self.stack.len() < l.len() {
            self.stomp();
            return StepResult::Count(0);
        }
        let depth = self.stack.len();
        for (j, &i) in l.iter().enumerate() {
            let col = &mut self.stack[depth - 1 - j];
            for (o, v) in self.ops.iter_mut().zip(col.iter_mut()) {
                std::mem::swap(&mut o[i as usize - 1], v);
            }
        }
        StepResult::Count(self.ops.len())
    }
    /// big swap on the m topmost elements: the n upper go below the m-n lower
    fn roll(&mut self, m: i64, n: i64) -> StepResult {
        let n = if n < 0 { m + n } else { n };
        let (m, n) = (m as usize, n as usize);
        if m > self.stack.len() {
            self.stomp();
            return StepResult::Count(0);
        }
        let base = self.stack.len() - m;
        let sub: Vec<Vec<f64>> = self.stack.drain(base..).collect();
        let (lower, upper) = sub.split_at(m - n);
        self.stack.extend(upper.iter().cloned());
        self.stack.extend(lower.iter().cloned());
        StepResult::Count(self.ops.len())
    }
    /// unroll=m,n: the n lower elements of the substack go above the m-n upper
    fn unroll(&mut self, m: i64, n: i64) -> StepResult {
        let n = if n < 0 { m + n } else { n };
        self.roll(m, m - n)
    }
    fn swap(&mut self) -> StepResult {
        let d = self.stack.len();
        if d < 2 {
            return StepResult::Unspecified;
        }
        self.stack.swap(d - 1, d - 2);
        StepResult::Count(self.ops.len())
    }
    fn lpush(&mut self, mask: u8) -> StepResult {
        let l: Vec<u8> = (1..=4).filter(|i| mask & (1 << (i - 1)) != 0).collect();
        self.push(&l)
    }
    fn lpop(&mut self, mask: u8) -> StepResult {
        let l: Vec<u8> = (1..=4u8).rev().filter(|i| mask & (1 << (i - 1)) != 0).collect();
        if self.stack.len() < l.len() {
            return StepResult::LegacyUnderflow;
        }
        self.pop(&l)
    }

    pub fn step(&mut self, ins: &Ins, dir: &Direction) -> StepResult {
        let fwd = *dir == Fwd;
        match ins {
            Ins::Push(l) if fwd => self.push(l),
            Ins::Push(l) => {
                let mut r = l.clone();
                r.reverse();
                self.pop(&r)
            }
            Ins::Pop(l) if fwd => self.pop(l),
            Ins::Pop(l) => {
                let mut r = l.clone();
                r.reverse();
                self.push(&r)
            }
            Ins::Flip(l) => self.flip(l),
            Ins::Roll(m, n) if fwd => self.roll(*m, *n),
            Ins::Roll(m, n) => self.unroll(*m, *n),
            Ins::Unroll(m, n) if fwd => self.unroll(*m, *n),
            Ins::Unroll(m, n) => self.roll(*m, *n),
            Ins::Swap => self.swap(),
            Ins::LPush(m) if fwd => self.lpush(*m),
            Ins::LPush(m) => self.lpop(*m),
            Ins::LPop(m) if fwd => self.lpop(*m),
            Ins::LPop(m) => self.lpush(*m),
            Ins::AddOne => {
                for o in self.ops.iter_mut() {
                    o[0] += if fwd { 1. } else { -1. };
                }
                StepResult::Count(self.ops.len())
            }
            Ins::Swap12 => {
                for o in self.ops.iter_mut() {
                    o.swap(0, 1);
                }
                StepResult::Count(self.ops.len())
            }
            Ins::Inv(i) => self.step(i, if fwd { &Inv } else { &Fwd }),
        }
    }

    /// Run a whole program in one direction on a fresh stack.
    /// Returns (count or None if unjudgeable, operands)
    ///
    /// Legacy pop underflow (not specified in detail by the documentation): the third member is
    /// Some(is_last_step); then only "count 0" is judged, plus "every tuple carries a NaN" when
    /// the underflowing step was the last one executed.
    pub fn run(prog: &[Ins], dir: &Direction, ops: &[C4]) -> (Option<usize>, Option<Vec<C4>>, Option<bool>) {
        Machine::run_stored(prog, dir, ops, 4)
    }

    /// The same through a container storing only the first `stored` dimensions: after every step what is
    /// written to a dimension the container lacks is gone, and reads as height 0 / time NaN again
    pub fn run_stored(prog: &[Ins], dir: &Direction, ops: &[C4], stored: usize) -> (Option<usize>, Option<Vec<C4>>, Option<bool>) {
        let truncate = |m: &mut Machine| {
            for o in m.ops.iter_mut() {
                if stored < 3 {
                    o[2] = 0.;
                }
                if stored < 4 {
                    o[3] = f64::NAN;
                }
            }
        };
        let mut m = Machine {
            stack: Vec::new(),
            ops: ops.to_vec(),
        };
        let mut n = usize::MAX;
        let order: Vec<&Ins> = if *dir == Fwd {
            prog.iter().collect()
        } else {
            prog.iter().rev().collect()
        };
        let last = order.len() - 1;
        truncate(&mut m);
        for (k, ins) in order.into_iter().enumerate() {
            let r = m.step(ins, dir);
            truncate(&mut m);
            match r {
                StepResult::Count(c) => n = n.min(c),
                StepResult::Unspecified => return (None, None, None),
                StepResult::LegacyUnderflow => return (Some(0), None, Some(k == last)),
            }
        }
        if n == usize::MAX {
            n = ops.len();
        }
        (Some(n), Some(m.ops), None)
    }
}

// ----- Self-test of the model against the documentation's own tables ---------------------

fn col(v: &[f64]) -> Vec<Vec<f64>> {
    v.iter().map(|x| vec![*x]).collect()
}

pub fn model_selftest() -> Result<usize, String> {
    let mut rows = 0;
    let mut check = |before: &[f64], ins: Ins, after: &[f64]| -> Result<(), String> {
        let mut m = Machine {
            stack: col(before),
            ops: vec![[0.; 4]],
        };
        m.step(&ins, &Fwd);
        if m.stack != col(after) {
            return Err(format!("model self-test failed: {before:?} {} -> {:?}, documented {after:?}", ins.text(), m.stack));
        }
        rows += 1;
        Ok(())
    };
    // roll table
    check(&[1., 2., 3., 4.], Ins::Roll(3, -2), &[1., 4., 2., 3.])?;
    check(&[1., 2., 3., 4.], Ins::Roll(3, 1), &[1., 4., 2., 3.])?;
    check(&[1., 2., 3., 4.], Ins::Roll(3, 2), &[1., 3., 4., 2.])?;
    check(&[1., 3., 4., 2.], Ins::Roll(3, 1), &[1., 2., 3., 4.])?;
    // unroll table
    check(&[1., 2., 3., 4.], Ins::Unroll(3, 2), &[1., 4., 2., 3.])?;
    check(&[1., 2., 3., 4.], Ins::Unroll(3, -2), &[1., 3., 4., 2.])?;
    check(&[1., 3., 4., 2.], Ins::Unroll(3, 2), &[1., 2., 3., 4.])?;
    check(&[1., 2., 3., 4.], Ins::Roll(3, 2), &[1., 3., 4., 2.])?;
    check(&[1., 3., 4., 2.], Ins::Unroll(3, 2), &[1., 2., 3., 4.])?;
    // flip table
    for (sb, ob, sa, oa) in [
        ([1., 2., 3., 4.], [5., 6., 7., 8.], [1., 2., 6., 5.], [4., 3., 7., 8.]),
        ([1., 2., 6., 5.], [4., 3., 7., 8.], [1., 2., 3., 4.], [5., 6., 7., 8.]),
    ] {
        let mut m = Machine {
            stack: col(&sb),
            ops: vec![ob],
        };
        m.step(&Ins::Flip(vec![1, 2]), &Fwd);
        if m.stack != col(&sa) || m.ops != vec![oa] {
            return Err("model self-test failed: flip table".to_string());
        }
        rows += 1;
    }
    // Swapping two 2D coordinates packed in a 4D. NOTE: the two recipes printed in the
    // documentation (`... | stack pop=2,1,4,3` and `push=1,2,3,4 | pop=4,3,2,1`) contradict the
    // documentation's own left-to-right rule and tables (under which both are the identity, as the
    // repository's unit test `stack_examples_from_rumination_002` also relies on); they are prose
    // examples, not part of the machine definition, so the self-test uses the rule-conforming form.
    let prog = vec![Ins::Push(vec![1, 2, 3, 4]), Ins::Roll(4, 2), Ins::Pop(vec![4, 3, 2, 1])];
    let (n, ops, _) = Machine::run(&prog, &Fwd, &[[1., 2., 3., 4.]]);
    if n != Some(1) || ops != Some(vec![[3., 4., 1., 2.]]) {
        return Err(format!("model self-test failed: 2D swap {prog:?} gives {ops:?}"));
    }
    let prog = vec![Ins::Push(vec![1, 2, 3, 4]), Ins::Pop(vec![4, 3, 2, 1])];
    let (_, ops, _) = Machine::run(&prog, &Fwd, &[[1., 2., 3., 4.]]);
    if ops != Some(vec![[1., 2., 3., 4.]]) {
        return Err("model self-test failed: push=1,2,3,4 | pop=4,3,2,1 must be the identity".to_string());
    }
    rows += 2;
    // push=1,2 | pop=1,2 swaps the two first elements; legacy push v_3 v_2 | pop v_3 v_2 is a noop
    let (_, ops, _) = Machine::run(&[Ins::Push(vec![1, 2]), Ins::Pop(vec![1, 2])], &Fwd, &[[1., 2., 3., 4.]]);
    if ops != Some(vec![[2., 1., 3., 4.]]) {
        return Err("model self-test failed: push=1,2|pop=1,2".to_string());
    }
    let (_, ops, _) = Machine::run(&[Ins::LPush(0b0110), Ins::LPop(0b0110)], &Fwd, &[[1., 2., 3., 4.]]);
    if ops != Some(vec![[1., 2., 3., 4.]]) {
        return Err("model self-test failed: legacy push/pop dance".to_string());
    }
    rows += 2;
    Ok(rows)
}

// ----- Alphabets ---------------------------------------------------------------------------

fn lists_upto2() -> Vec<Vec<u8>> {
    let mut v = Vec::new();
    for a in 1..=4u8 {
        v.push(vec![a]);
    }
    for a in 1..=4u8 {
        for b in 1..=4u8 {
            v.push(vec![a, b]);
        }
    }
    v
}

/// instructions carrying the inv modifier (C03: such a step behaves with the two directions exchanged)
fn inverted_instructions() -> Vec<Ins> {
    [
        Ins::Push(vec![1]),
        Ins::Push(vec![1, 2]),
        Ins::Pop(vec![1]),
        Ins::Pop(vec![2, 1]),
        Ins::Flip(vec![1]),
        Ins::Roll(3, 1),
        Ins::Unroll(3, 1),
        Ins::Swap,
        Ins::LPush(0b0011),
        Ins::LPop(0b0011),
        Ins::AddOne,
    ]
    .into_iter()
    .map(|i| Ins::Inv(Box::new(i)))
    .collect()
}

pub fn full_alphabet(max_m: i64) -> Vec<Ins> {
    let mut a = vec![Ins::AddOne, Ins::Swap12, Ins::Swap];
    let mut ls = lists_upto2();
    ls.extend([vec![1, 2, 3, 4], vec![4, 3, 2, 1], vec![2, 2, 1], vec![1, 1, 1, 1], vec![3, 1, 2]]);
    for l in &ls {
        a.push(Ins::Push(l.clone()));
        a.push(Ins::Pop(l.clone()));
        a.push(Ins::Flip(l.clone()));
    }
    for m in 1..=max_m {
        for n in (1 - m)..m {
            a.push(Ins::Roll(m, n));
            a.push(Ins::Unroll(m, n));
        }
    }
    for mask in 1..16u8 {
        a.push(Ins::LPush(mask));
        a.push(Ins::LPop(mask));
    }
    a.extend(inverted_instructions());
    a
}

pub fn reduced_alphabet() -> Vec<Ins> {
    vec![
        Ins::AddOne,
        Ins::Swap,
        Ins::Push(vec![1]),
        Ins::Push(vec![1, 2]),
        Ins::Push(vec![2, 1]),
        Ins::Push(vec![3, 4]),
        Ins::Push(vec![1, 2, 3]),
        Ins::Pop(vec![1]),
        Ins::Pop(vec![1, 2]),
        Ins::Pop(vec![2, 1]),
        Ins::Pop(vec![3]),
        Ins::Pop(vec![4, 3, 2]),
        Ins::Flip(vec![1]),
        Ins::Flip(vec![1, 2]),
        Ins::Flip(vec![2, 1]),
        Ins::Roll(2, 1),
        Ins::Roll(3, 1),
        Ins::Roll(3, 2),
        Ins::Roll(3, -1),
        Ins::Unroll(2, 1),
        Ins::Unroll(3, 1),
        Ins::Unroll(3, 2),
        Ins::Unroll(3, -2),
        Ins::LPush(0b0001),
        Ins::LPush(0b0011),
        Ins::LPop(0b0001),
        Ins::LPop(0b0011),
        Ins::LPop(0b0010),
        Ins::Inv(Box::new(Ins::Push(vec![1, 2]))),
        Ins::Inv(Box::new(Ins::Pop(vec![2, 1]))),
        Ins::Inv(Box::new(Ins::Roll(3, 1))),
        Ins::Inv(Box::new(Ins::LPush(0b0011))),
    ]
}

const OPERANDS1: [C4; 1] = [[11., 12., 13., 14.]];
const OPERANDS3: [C4; 3] = [[11., 12., 13., 14.], [21., 22., 23., 24.], [31., 32., 33., 34.]];

pub fn program_text(prog: &[Ins]) -> String {
    let t = prog.iter().map(|i| i.text()).collect::<Vec<_>>().join(" | ");
    if prog.len() == 1 {
        // a single step is still a pipeline: the stack only exists inside pipelines
        format!("| {t}")
    } else {
        t
    }
}

/// Check one program through the public API against the model. Returns Err(clause, detail)
pub fn check_program(prog: &[Ins]) -> Result<u64, (String, Value)> {
    let text = program_text(prog);
    let mut ctx = Minimal::default();
    let op = match catch(|| ctx.op(&text)) {
        Ok(Ok(op)) => op,
        Ok(Err(e)) => {
            return Err((
                "well-formed program rejected".into(),
                json!({"program": text, "error": e.to_string()}),
            ))
        }
        Err(p) => return Err((format!("panic at instantiation: {}", panic_class(&p)), json!({"program": text, "panic": p}))),
    };
    let mut outcome = 0u64;
    for operands in [&OPERANDS1[..], &OPERANDS3[..]] {
        for dir in [Fwd, Inv] {
            let (mn, mops, legacy_underflow) = Machine::run(prog, &dir, operands);
            let mut first: Option<(usize, Vec<C4>)> = None;
            for round in 0..2 {
                let res = catch(|| apply(&ctx, op, if dir == Fwd { Fwd } else { Inv }, operands));
                let (n, got) = match res {
                    Ok(r) => r,
                    Err(p) => {
                        return Err((
                            format!("panic in apply: {}", panic_class(&p)),
                            json!({"program": text, "direction": dir_name(&dir), "operands": operands, "panic": p}),
                        ))
                    }
                };
                outcome = hash_of(&(outcome, n, got.iter().map(|c| bits4(*c)).collect::<Vec<_>>()));
                if let Some((n0, got0)) = &first {
                    if *n0 != n || !same_bits(got0, &got) {
                        return Err((
                            "second application differs from the first (stack leaks between applications)".into(),
                            json!({"program": text, "direction": dir_name(&dir), "operands": operands,
                                   "first": [n0, format!("{got0:?}")], "second": [n, format!("{got:?}")], "round": round}),
                        ));
                    }
                } else {
                    first = Some((n, got.clone()));
                }
                let Some(mn) = mn else { continue }; // unspecified by the documentation
                if let Some(is_last) = legacy_underflow {
                    let all_nan = !is_last || got.iter().all(|c| c.iter().any(|x| x.is_nan()));
                    if n != 0 || !all_nan {
                        return Err((
                            "legacy pop underflow must give count 0 and NaN in every tuple".into(),
                            json!({"program": text, "direction": dir_name(&dir), "operands": operands, "count": n, "got": format!("{got:?}")}),
                        ));
                    }
                    continue;
                }
                let mops = mops.as_ref().unwrap();
                if n != mn || !same_bits(mops, &got) {
                    return Err((
                        "result differs from the abstract stack machine".into(),
                        json!({"program": text, "direction": dir_name(&dir), "operands": operands,
                               "model": [mn, format!("{mops:?}")], "observed": [n, format!("{got:?}")]}),
                    ));
                }
            }
        }
    }
    // the same program through containers that store two or three dimensions only: stack traffic addressing a
    // dimension the container lacks is still consumed and produced
    if prog.len() <= 2 {
        for stored in [2usize, 3] {
            for dir in [Fwd, Inv] {
                let (mn, mops, legacy_underflow) = Machine::run_stored(prog, &dir, &OPERANDS3, stored);
                let (Some(mn), Some(mops), None) = (mn, mops, legacy_underflow) else { continue };
                let res = catch(|| {
                    let d2 = if dir == Fwd { Fwd } else { Inv };
                    if stored == 2 {
                        let mut data: Vec<Coor2D> = OPERANDS3.iter().map(|t| Coor2D([t[0], t[1]])).collect();
                        let n = ctx.apply(op, d2, &mut data).unwrap_or(usize::MAX);
                        (n, data.iter().map(|c| vec![c.0[0], c.0[1]]).collect::<Vec<_>>())
                    } else {
                        let mut data: Vec<Coor3D> = OPERANDS3.iter().map(|t| Coor3D([t[0], t[1], t[2]])).collect();
                        let n = ctx.apply(op, d2, &mut data).unwrap_or(usize::MAX);
                        (n, data.iter().map(|c| vec![c.0[0], c.0[1], c.0[2]]).collect::<Vec<_>>())
                    }
                });
                let (n, got) = match res {
                    Ok(r) => r,
                    Err(p) => return Err((format!("panic in apply: {}", panic_class(&p)), json!({"program": text, "direction": dir_name(&dir), "container_dimensions": stored, "panic": p}))),
                };
                let same = got.iter().zip(mops.iter()).all(|(g, m)| (0..stored).all(|k| bits(g[k]) == bits(m[k]) || (g[k].is_nan() && m[k].is_nan())));
                if n != mn || !same {
                    return Err((
                        format!("result through a {stored}D container differs from the abstract stack machine"),
                        json!({"program": text, "direction": dir_name(&dir), "container_dimensions": stored, "model": [mn, format!("{mops:?}")], "observed": [n, format!("{got:?}")]}),
                    ));
                }
            }
        }
    }
    Ok(outcome)
}

/// Greedy minimisation: drop steps while the same clause still fails
fn minimise(prog: &[Ins], clause: &str) -> Vec<Ins> {
    let mut cur = prog.to_vec();
    let mut changed = true;
    while changed && cur.len() > 1 {
        changed = false;
        for i in 0..cur.len() {
            let mut t = cur.clone();
            t.remove(i);
            if let Err((c, _)) = check_program(&t) {
                if c == clause {
                    cur = t;
                    changed = true;
                    break;
                }
            }
        }
    }
    cur
}

fn key_for(clause: &str, prog: &[Ins]) -> String {
    // The key generalises index lists and (m,n) so that one root cause is one key
    let shape: Vec<String> = prog
        .iter()
        .map(|i| match i {
            Ins::Push(_) => "push".to_string(),
            Ins::Pop(_) => "pop".to_string(),
            Ins::Flip(_) => "flip".to_string(),
            Ins::Roll(..) => "roll".to_string(),
            Ins::Unroll(..) => "unroll".to_string(),
            Ins::Swap => "swap".to_string(),
            Ins::LPush(_) => "legacy-push".to_string(),
            Ins::LPop(_) => "legacy-pop".to_string(),
            Ins::AddOne => "addone".to_string(),
            Ins::Swap12 => "axisswap".to_string(),
            Ins::Inv(i) => format!("{} inv", key_for("", std::slice::from_ref(i)).rsplit(": ").next().unwrap_or("")),
        })
        .collect();
    format!("{clause} / minimal program shape: {}", shape.join(" | "))
}

fn enumerate_programs(rep: &Report, alphabet: &[Ins], len: usize, label: &str) {
    let a = alphabet.len();
    let total = a.pow(len as u32);
    let radix = vec![a; len];
    let outcomes = Mutex::new(HashSet::new());
    par_range(total, |i| {
        let idx = decode(i, &radix);
        let prog: Vec<Ins> = idx.iter().map(|&j| alphabet[j].clone()).collect();
        rep.eval(1);
        rep.state(1);
        rep.transition(len as u64);
        rep.trace(1);
        let has_stack = prog.iter().any(|p| !matches!(p, Ins::AddOne | Ins::Swap12));
        match check_program(&prog) {
            Ok(h) => {
                if has_stack {
                    outcomes.lock().unwrap().insert(h);
                }
                if i == 0 || i == total / 2 || i == total - 1 {
                    rep.sample(json!({"kind": "program", "space": label, "index": i, "program": program_text(&prog)}));
                }
            }
            Err((clause, detail)) => {
                let min = minimise(&prog, &clause);
                let key = key_for(&clause, &min);
                let mut d = detail;
                d["minimal_program"] = json!(program_text(&min));
                d["kind"] = json!("program");
                d["program_ins"] = json!(min.iter().map(|i| i.text()).collect::<Vec<_>>());
                rep.violation(&key, d);
            }
        }
    });
    let o = outcomes.into_inner().unwrap();
    rep.nontrivial_bulk(&o);
    rep.outcomes_bulk(&o);
    rep.add_to("program_spaces", json!({"label": label, "alphabet": a, "length": len, "programs": total}));
}

// ----- (b) explicit-state BFS over concrete machine states, with the H5 hook ---------------

type StateKey = (Vec<Vec<u64>>, Vec<[u64; 4]>);
fn key_of(m: &Machine) -> StateKey {
    (
        m.stack.iter().map(|c| c.iter().map(|x| bits(*x)).collect()).collect(),
        m.ops.iter().map(|c| bits4(*c)).collect(),
    )
}

fn bfs(rep: &Report, max_depth: usize, max_stack: usize, max_m: i64, budget_s: f64) {
    let ctx = Minimal::default();
    let alphabet: Vec<Ins> = full_alphabet(max_m)
        .into_iter()
        // (the inv modifier is honoured by the enclosing pipeline, not by the raw step functions the hook exposes)
        .filter(|i| !matches!(i, Ins::AddOne | Ins::Swap12 | Ins::LPush(_) | Ins::LPop(_) | Ins::Inv(_)))
        .collect();
    let ops: Vec<(Ins, Op)> = alphabet
        .iter()
        .filter_map(|i| Op::new(&i.text(), &ctx).ok().map(|o| (i.clone(), o)))
        .collect();
    if ops.len() != alphabet.len() {
        rep.violation("well-formed stack step rejected (bfs alphabet)", json!({"kind": "bfs-alphabet"}));
    }
    let t0 = std::time::Instant::now();
    for start_ops in [OPERANDS1.to_vec(), OPERANDS3[..2].to_vec()] {
        let start = Machine {
            stack: Vec::new(),
            ops: start_ops,
        };
        let mut seen: HashSet<StateKey> = HashSet::new();
        seen.insert(key_of(&start));
        let mut frontier: VecDeque<(Machine, usize, Vec<String>)> = VecDeque::new();
        frontier.push_back((start, 0, vec![]));
        let mut completed_depth = 0;
        while let Some((m, depth, path)) = frontier.pop_front() {
            if depth >= max_depth {
                continue;
            }
            if t0.elapsed().as_secs_f64() > budget_s {
                rep.not_exhaustive(&format!("bfs wall budget {budget_s}s hit at depth {depth}"));
                break;
            }
            completed_depth = completed_depth.max(depth);
            for (ins, op) in &ops {
                for dir in [Fwd, Inv] {
                    let mut model = m.clone();
                    let expected = model.step(ins, &dir);
                    if expected == StepResult::Unspecified {
                        continue;
                    }
                    let mut stack = m.stack.clone();
                    let mut operands = to_set(&m.ops);
                    let d2 = if dir == Fwd { Fwd } else { Inv };
                    let got = catch(|| geodesy::verif::stack_step(op, d2, &mut stack, &mut operands));
                    rep.transition(1);
                    rep.eval(1);
                    let label = format!("{} [{}]", ins.text(), dir_name(&dir));
                    let got = match got {
                        Ok(n) => n,
                        Err(p) => {
                            rep.violation(
                                &format!("panic in stack step: {} / {} {}", panic_class(&p), key_for("", &[ins.clone()]), dir_name(&dir)),
                                json!({"kind": "bfs", "path": path, "step": label, "panic": p,
                                       "stack": format!("{:?}", m.stack), "operands": format!("{:?}", m.ops)}),
                            );
                            continue;
                        }
                    };
                    let real = Machine {
                        stack,
                        ops: from_set(&operands),
                    };
                    let StepResult::Count(en) = expected else { continue };
                    if got != en || key_of(&real) != key_of(&model) {
                        rep.violation(
                            &format!("machine state differs after one transition{} {}", key_for("", &[ins.clone()]), dir_name(&dir)),
                            json!({"kind": "bfs", "path": path, "step": label,
                                   "before": {"stack": format!("{:?}", m.stack), "operands": format!("{:?}", m.ops)},
                                   "model": {"count": en, "stack": format!("{:?}", model.stack), "operands": format!("{:?}", model.ops)},
                                   "observed": {"count": got, "stack": format!("{:?}", real.stack), "operands": format!("{:?}", real.ops)}}),
                        );
                        continue;
                    }
                    if model.stack.len() > max_stack {
                        continue;
                    }
                    let k = key_of(&model);
                    if seen.insert(k) {
                        rep.state(1);
                        let mut p2 = path.clone();
                        p2.push(label);
                        if seen.len() % 50_000 == 1 {
                            rep.sample(json!({"kind": "bfs-state", "path": p2, "stack": format!("{:?}", model.stack), "operands": format!("{:?}", model.ops)}));
                        }
                        frontier.push_back((model, depth + 1, p2));
                    }
                }
            }
        }
        rep.add_to("bfs", json!({"operand_tuples": m_len(&seen), "states": seen.len(), "depth_bound": max_depth, "max_stack": max_stack, "max_m": max_m}));
        rep.nontrivial_bulk(&seen.iter().map(hash_of).collect());
    }
}

fn m_len(seen: &HashSet<StateKey>) -> usize {
    seen.iter().next().map(|k| k.1.len()).unwrap_or(0)
}

// ----- (c) ill-formed sub-commands ---------------------------------------------------------

const ILL_FORMED: [&str; 30] = [
    "stack",
    "stack push=0",
    "stack push=5",
    "stack push=1.5",
    "stack push=-1",
    "stack push=1,0",
    "stack pop=0",
    "stack pop=5",
    "stack pop=2.5",
    "stack pop=1,7",
    "stack flip=0",
    "stack flip=5",
    "stack flip=1.25",
    "stack roll=3",
    "stack roll=3,1,2",
    "stack roll=2,2",
    "stack roll=2,-2",
    "stack roll=2,3",
    "stack roll=0,0",
    "stack roll=2.5,1",
    "stack roll=3,1.5",
    "stack unroll=3",
    "stack unroll=3,1,2",
    "stack unroll=2,2",
    "stack unroll=2,-2",
    "stack unroll=2,3",
    "stack unroll=3,1.5",
    "stack push=1 pop=1",
    "stack roll=3,1 unroll=3,1",
    "stack push=1,2 swap",
];

fn ill_formed(rep: &Report) {
    for def in ILL_FORMED {
        for wrap in ["{}", "| {}", "addone | {} | addone"] {
            let text = wrap.replace("{}", def);
            let mut ctx = Minimal::default();
            rep.eval(1);
            match catch(|| ctx.op(&text)) {
                Ok(Err(_)) => {}
                Ok(Ok(_)) => rep.violation(
                    &format!("ill-formed sub-command accepted at instantiation: {def}"),
                    json!({"kind": "ill-formed", "definition": text}),
                ),
                Err(p) => rep.violation(
                    &format!("panic at instantiation: {} / {def}", panic_class(&p)),
                    json!({"kind": "ill-formed", "definition": text, "panic": p}),
                ),
            }
        }
    }
    rep.set("ill_formed_definitions", json!(ILL_FORMED.len() * 3));
}

pub fn run(tier: Tier) -> Report {
    let rep = Report::new("C12", tier, "model_checking");
    rep.rule("every program of length 1..L over the stack instruction alphabet (complete product), both directions, \
              operand sets of 1 and 3 tuples, applied twice; plus BFS over concrete (stack, operands) states stepping the real \
              stack_fwd/stack_inv next to the reference machine. Non-trivial = program with at least one stack instruction, \
              counted by distinct observed result hash; BFS states counted by distinct concrete state");
    rep.assume("the reference machine is a transcription of Rumination 002; it is self-tested against every row of the documentation's roll, unroll and flip tables and both 2D-swap recipes before any verdict");
    rep.assume("swap on fewer than two elements is unspecified and not judged; legacy pop underflow is judged only for count 0 and NaN in every tuple");
    match model_selftest() {
        Ok(rows) => rep.set("model_selftest_rows", json!(rows)),
        Err(e) => {
            rep.machinery_error(e);
            return rep;
        }
    }
    let full = full_alphabet(4);
    let reduced = reduced_alphabet();
    rep.set("alphabet_full", json!(full.iter().map(|i| i.text()).collect::<Vec<_>>()));
    match tier {
        Tier::Quick => {
            enumerate_programs(&rep, &full, 1, "full^1");
            enumerate_programs(&rep, &full, 2, "full^2");
            enumerate_programs(&rep, &reduced, 3, "reduced^3");
            bfs(&rep, 3, 5, 5, 20.);
        }
        Tier::Thorough => {
            enumerate_programs(&rep, &full, 1, "full^1");
            enumerate_programs(&rep, &full, 2, "full^2");
            enumerate_programs(&rep, &full, 3, "full^3");
            enumerate_programs(&rep, &reduced, 4, "reduced^4");
            bfs(&rep, 5, 8, 8, 600.);
        }
    }
    ill_formed(&rep);
    rep
}

pub fn replay(case: &Value) -> Result<String, String> {
    match case["kind"].as_str() {
        Some("program") => {
            let text = case["minimal_program"].as_str().unwrap_or("");
            // parse the instruction texts back through the alphabet
            let alphabet = full_alphabet(8);
            let mut prog = Vec::new();
            for t in case["program_ins"].as_array().cloned().unwrap_or_default() {
                let t = t.as_str().unwrap_or("").to_string();
                match alphabet.iter().find(|i| i.text() == t) {
                    Some(i) => prog.push(i.clone()),
                    None => return Err(format!("unknown instruction {t}")),
                }
            }
            match check_program(&prog) {
                Ok(_) => Ok(text.to_string()),
                Err((c, d)) => Err(format!("{c}: {d}")),
            }
        }
        Some("ill-formed") => {
            let def = case["definition"].as_str().unwrap_or("");
            let mut ctx = Minimal::default();
            match catch(|| ctx.op(def)) {
                Ok(Err(_)) => Ok(format!("{def} rejected")),
                Ok(Ok(_)) => Err(format!("{def} accepted")),
                Err(p) => Err(format!("{def} panics: {p}")),
            }
        }
        _ => Err("bfs cases are replayed by re-running the check (path recorded in the file)".to_string()),
    }
}
