//! C13 — projection parameters follow common conventions; derived operators match theirs.
//! Every relation compares two differently parameterised instances of the real code on the
//! fixed lattice: false origin, lon_0, k_0, semi-major axis scaling, utm == tmerc for all 60
//! zones x 2 hemispheres, butm == btmerc, merc on a sphere == webmerc, lat_ts == k_0,
//! lcc 1SP == 2SP with equal parallels, noop aliases.

use crate::engine::*;
use crate::geo::*;
use crate::projs::*;
use crate::props::c01::C4;
use geodesy::authoring::*;
use serde_json::json;
use std::collections::HashSet;
use std::sync::Mutex;

struct Relation {
    key: String,
    def_a: String,
    def_b: String,
    /// input for B given the input for A
    map_in: Box<dyn Fn(C4) -> C4 + Sync + Send>,
    /// expected output of A given the output of B
    map_out: Box<dyn Fn(C4) -> C4 + Sync + Send>,
    inputs: Vec<C4>,
    /// absolute tolerance (m) and relative tolerance
    tol_abs: f64,
    tol_rel: f64,
    both_directions: bool,
}

fn lattice(p: &Proj, lat_step: f64, lon_step: f64) -> Vec<C4> {
    let mut v = Vec::new();
    for &lat in &lat_lattice(lat_step, 90.) {
        for &dl in &dlon_lattice(lon_step, 180.) {
            // longitudes as a user gives them: within (-180, 180], also when the domain straddles the antimeridian
            let lon = crate::geo::wrap180(p.lon_c + dl);
            if p.contains(lat, lon, 180.) && lat.abs() < 89.95 {
                v.push([lon.to_radians(), lat.to_radians(), 12.5, 2020.5]);
            }
        }
    }
    v
}

fn run_relation(rep: &Report, r: &Relation, outcomes: &Mutex<HashSet<u64>>) {
    let mut ctx = Minimal::default();
    let (a, b) = match (catch(|| ctx.op(&r.def_a)), catch(|| ctx.op(&r.def_b))) {
        (Ok(Ok(a)), Ok(Ok(b))) => (a, b),
        (x, y) => {
            rep.violation(&format!("instantiation fails / {}", r.key), json!({"a": r.def_a, "b": r.def_b, "result": format!("{x:?} {y:?}").chars().take(300).collect::<String>()}));
            return;
        }
    };
    let mut da: Vec<Coor4D> = r.inputs.iter().map(|t| Coor4D(*t)).collect();
    let mut db: Vec<Coor4D> = r.inputs.iter().map(|t| Coor4D((r.map_in)(*t))).collect();
    let na = ctx.apply(a, Fwd, &mut da).unwrap_or(usize::MAX);
    let nb = ctx.apply(b, Fwd, &mut db).unwrap_or(usize::MAX);
    rep.eval(r.inputs.len() as u64);
    let mut local = HashSet::new();
    for i in 0..r.inputs.len() {
        let want = (r.map_out)(db[i].0);
        let got = da[i].0;
        let mut bad = false;
        for k in 0..4 {
            let tol = r.tol_abs + r.tol_rel * want[k].abs().max(got[k].abs());
            if !(bits(want[k]) == bits(got[k]) || (want[k] - got[k]).abs() <= tol) {
                bad = true;
            }
        }
        if bad {
            rep.violation(
                &format!("convention violated / {}", r.key),
                json!({"relation": r.key, "a": r.def_a, "b": r.def_b, "input": format!("{:?}", r.inputs[i]), "a_gives": format!("{got:?}"), "expected_from_b": format!("{want:?}")}),
            );
            break;
        }
        if i % 37 == 0 {
            local.insert(hash_of(&bits4(got)));
        }
    }
    if na != nb {
        rep.violation(&format!("counts differ / {}", r.key), json!({"a": r.def_a, "b": r.def_b, "counts": [na, nb]}));
    }
    if r.both_directions {
        // the inverses must agree as well: A_inv(y) == map_in^-1 ... checked through round trip of A on B's output
        let mut ya: Vec<Coor4D> = da.clone();
        let _ = ctx.apply(a, Inv, &mut ya);
        let mut yb: Vec<Coor4D> = db.clone();
        let _ = ctx.apply(b, Inv, &mut yb);
        for i in 0..r.inputs.len() {
            let (xa, xb, xi, xbi) = (ya[i].0, yb[i].0, r.inputs[i], (r.map_in)(r.inputs[i]));
            // both inverses return their own inputs to the same accuracy
            let wrap = |d: f64| {
                let t = d.abs() % (2. * std::f64::consts::PI);
                t.min(2. * std::f64::consts::PI - t)
            };
            let ea = wrap(xa[0] - xi[0]).max((xa[1] - xi[1]).abs());
            let eb = wrap(xb[0] - xbi[0]).max((xb[1] - xbi[1]).abs());
            if (ea - eb).abs() > 1e-9 && ea.is_finite() && eb.is_finite() {
                rep.violation(&format!("inverses disagree / {}", r.key), json!({"a": r.def_a, "b": r.def_b, "input": format!("{xi:?}"), "a_inverse_error_rad": ea, "b_inverse_error_rad": eb}));
                break;
            }
        }
    }
    outcomes.lock().unwrap().extend(local);
}

fn id() -> Box<dyn Fn(C4) -> C4 + Sync + Send> {
    Box::new(|t| t)
}

fn relations(tier: Tier, ellipsoids: &[String]) -> Vec<Relation> {
    let mut v = Vec::new();
    let (lat_step, lon_step) = tier.pick((10., 20.), (2.5, 5.));
    for p in projections() {
        if p.op == "webmerc" || p.op == "utm" || p.op == "butm" {
            continue;
        }
        let inputs = lattice(&p, lat_step, lon_step);
        let tol = if p.class == Class::Approximate { 1e-6 } else { 1e-7 };
        for ellps in ellipsoids {
            let base = p.with_ellps(ellps);
            // 1. false origin is added to the forward result
            for (x0, y0) in [(500000., 0.), (-1234.5, 10000000.), (0.25, -0.5)] {
                let without = strip(&base, &["x_0", "y_0"]);
                let with = format!("{without} x_0={x0} y_0={y0}");
                v.push(Relation {
                    key: format!("{} [{}]: x_0, y_0 are added to the forward result", p.op, p.aspect),
                    def_a: with,
                    def_b: without,
                    map_in: id(),
                    map_out: Box::new(move |o| [o[0] + x0, o[1] + y0, o[2], o[3]]),
                    inputs: inputs.clone(),
                    tol_abs: tol,
                    tol_rel: 1e-13,
                    both_directions: true,
                });
            }
            // 2. lon_0 (degrees) is equivalent to subtracting it from the input longitude
            let lon_key = if p.op == "omerc" { "lonc" } else { "lon_0" };
            for l in [9., -100., 179.] {
                let without = strip(&base, &[lon_key]);
                let with = format!("{without} {lon_key}={l}");
                // evaluate around the new centre: shift the lattice accordingly
                // (longitudes are given within (-180, 180], as a user would: next to the antimeridian the raw difference
                // lon - lon_0 then is far outside that range. Not for merc, which is linear in the longitude and
                // documented here as not wrapping it: DESIGN section 4)
                let wrap = p.op != "merc" && p.op != "webmerc";
                let w = move |lon: f64| if wrap { crate::geo::wrap180(lon.to_degrees()).to_radians() } else { lon };
                let shifted: Vec<C4> = inputs.iter().map(|t| [w(t[0] - p.lon_c.to_radians() + f64::to_radians(l)), t[1], t[2], t[3]]).collect();
                v.push(Relation {
                    key: format!("{} [{}]: {lon_key} (degrees) is equivalent to subtracting it from the longitude", p.op, p.aspect),
                    def_a: with,
                    def_b: format!("{without} {lon_key}=0"),
                    map_in: Box::new(move |t| [w(t[0] - f64::to_radians(l)), t[1], t[2], t[3]]),
                    map_out: id(),
                    inputs: shifted,
                    tol_abs: tol * 10.,
                    tol_rel: 1e-13,
                    both_directions: true,
                });
            }
            // 3. k_0 scales the unshifted plane coordinates linearly
            if p.op != "laea" && !base.contains("lat_ts") {
                for k in [0.9996, 2.0] {
                    let without = strip(&base, &["k_0", "x_0", "y_0"]);
                    v.push(Relation {
                        key: format!("{} [{}]: k_0 scales the unshifted result", p.op, p.aspect),
                        def_a: format!("{without} k_0={k} x_0=1000 y_0=-2000"),
                        def_b: format!("{without} k_0=1"),
                        map_in: id(),
                        map_out: Box::new(move |o| [k * o[0] + 1000., k * o[1] - 2000., o[2], o[3]]),
                        inputs: inputs.clone(),
                        tol_abs: tol * 10.,
                        tol_rel: 1e-13,
                        both_directions: true,
                    });
                }
            }
            // 4. scaling the semi-major axis scales the unshifted result
            if let Some(ell) = ref_ellipsoid(ellps) {
                let without = strip(&strip_ellps(&base), &["x_0", "y_0"]);
                let rf = if ell.f == 0. { 0. } else { 1. / ell.f };
                if rf != 0. {
                    v.push(Relation {
                        key: format!("{} [{}]: scaling the semi-major axis scales the unshifted result", p.op, p.aspect),
                        def_a: format!("{without} ellps={},{}", 2. * ell.a, rf),
                        def_b: format!("{without} ellps={},{}", ell.a, rf),
                        map_in: id(),
                        map_out: Box::new(|o| [2. * o[0], 2. * o[1], o[2], o[3]]),
                        inputs: inputs.clone(),
                        tol_abs: tol * 10.,
                        tol_rel: 1e-13,
                        both_directions: true,
                    });
                }
            }
        }
    }
    // 5./6. utm == tmerc, butm == btmerc: all 60 zones, both hemispheres
    for (utm, tm, maxd) in [("utm", "tmerc", 30.), ("butm", "btmerc", 3.)] {
        for zone in 1..=60 {
            for south in [false, true] {
                let lon_0 = 6 * zone - 183;
                let mut inputs = Vec::new();
                for &lat in &lat_lattice(lat_step, if utm == "utm" { 89.9 } else { 84. }) {
                    for &dl in &dlon_lattice(lon_step.min(5.), maxd) {
                        inputs.push([f64::to_radians(lon_0 as f64 + dl), lat.to_radians(), 0., 0.]);
                    }
                }
                for ellps in ellipsoids.iter().take(2) {
                    v.push(Relation {
                        key: format!("{utm} zone=Z{} is {tm} with lon_0=6Z-183 k_0=0.9996 x_0=500000 y_0={}", if south { " south" } else { "" }, if south { "10000000" } else { "0" }),
                        def_a: format!("{utm} zone={zone}{} ellps={ellps}", if south { " south" } else { "" }),
                        def_b: format!("{tm} lon_0={lon_0} k_0=0.9996 x_0=500000 y_0={} ellps={ellps}", if south { 10000000 } else { 0 }),
                        map_in: id(),
                        map_out: id(),
                        inputs: inputs.clone(),
                        tol_abs: 1e-8,
                        tol_rel: 1e-14,
                        both_directions: true,
                    });
                }
            }
        }
    }
    // 7. merc on a sphere == webmerc on the same sphere
    let merc = projections().into_iter().find(|p| p.op == "webmerc").unwrap();
    let inputs = lattice(&merc, lat_step, lon_step);
    for sphere in ["sphere", "6378137,1e300", "6370997,0"] {
        v.push(Relation {
            key: "merc on a sphere equals webmerc on the same sphere".into(),
            def_a: format!("merc ellps={sphere}"),
            def_b: format!("webmerc ellps={sphere}"),
            map_in: id(),
            map_out: id(),
            inputs: inputs.clone(),
            tol_abs: 1e-7,
            tol_rel: 1e-14,
            both_directions: true,
        });
    }
    // 8. lat_ts is equivalent to the corresponding k_0
    let mercp = projections().into_iter().find(|p| p.op == "merc").unwrap();
    let inputs = lattice(&mercp, lat_step, lon_step);
    for ellps in ellipsoids {
        let Some(ell) = ref_ellipsoid(ellps) else { continue };
        for ts in [56f64, -30., 0.001, 89.] {
            let (s, c) = ts.to_radians().sin_cos();
            let k = c / (1. - ell.es() * s * s).sqrt();
            v.push(Relation {
                key: "merc: lat_ts is equivalent to k_0 = cos(lat_ts)/sqrt(1-e2 sin2(lat_ts))".into(),
                def_a: format!("merc lat_ts={ts} lon_0=12 ellps={ellps}"),
                def_b: format!("merc k_0={k:?} lon_0=12 ellps={ellps}"),
                map_in: id(),
                map_out: id(),
                inputs: inputs.clone(),
                tol_abs: 1e-7,
                tol_rel: 1e-12,
                both_directions: true,
            });
        }
    }
    // 9. one-parallel lcc equals two-parallel lcc with both parallels equal
    for (lat1, lon0, lat0) in [(57., 12., 57.), (-33., -60., -40.), (20., 100., 0.)] {
        let p = Proj { lat_min: if lat1 > 0. { -80. } else { -89.9 }, lat_max: if lat1 > 0. { 89.9 } else { 80. }, ..projections().into_iter().find(|p| p.op == "lcc").unwrap() };
        let p = Proj { lon_c: lon0, ..p };
        let inputs = lattice(&p, lat_step, lon_step);
        for ellps in ellipsoids {
            // with and without an explicit origin latitude (its default must not depend on how the
            // single parallel is spelled), with and without scale and offsets
            for origin in [format!(" lat_0={lat0}"), String::new()] {
                for rest in [" k_0=0.9999 x_0=100 y_0=200", ""] {
                    v.push(Relation {
                        key: format!("lcc: one standard parallel equals two equal standard parallels{}", if origin.is_empty() { " (lat_0 omitted)" } else { "" }),
                        def_a: format!("lcc lat_1={lat1} lon_0={lon0}{origin}{rest} ellps={ellps}"),
                        def_b: format!("lcc lat_1={lat1} lat_2={lat1} lon_0={lon0}{origin}{rest} ellps={ellps}"),
                        map_in: id(),
                        map_out: id(),
                        inputs: inputs.clone(),
                        tol_abs: 1e-7,
                        tol_rel: 1e-14,
                        both_directions: true,
                    });
                }
            }
        }
    }
    v
}

fn strip(def: &str, keys: &[&str]) -> String {
    def.split_whitespace().filter(|t| !keys.iter().any(|k| t.starts_with(&format!("{k}=")))).collect::<Vec<_>>().join(" ")
}
fn strip_ellps(def: &str) -> String {
    strip(def, &["ellps"])
}

fn noop_aliases(rep: &Report) {
    let v: Vec<C4> = crate::props::c19::V.iter().flat_map(|&a| crate::props::c19::V.iter().map(move |&b| [a, b, -b, a])).collect();
    for name in ["noop", "longlat", "latlon", "latlong", "lonlat"] {
        for def in [name.to_string(), format!("{name} inv"), format!("addone | {name} | addone inv"), format!("{name} ellps=intl foo=bar")] {
            let mut ctx = Minimal::default();
            rep.eval(1);
            match catch(|| ctx.op(&def)) {
                Ok(Ok(op)) => {
                    for dir in [Fwd, Inv] {
                        let mut d: Vec<Coor4D> = v.iter().map(|t| Coor4D(*t)).collect();
                        let n = ctx.apply(op, dir, &mut d).unwrap_or(usize::MAX);
                        let same = d.iter().zip(v.iter()).all(|(x, y)| {
                            // `addone | noop | addone inv` is the identity only where x+1-1 == x
                            if def.contains("addone") {
                                bits4([x.0[1], x.0[2], x.0[3], 0.]) == bits4([y[1], y[2], y[3], 0.])
                            } else {
                                bits4(x.0) == bits4(*y)
                            }
                        });
                        if n != v.len() || !same {
                            rep.violation(&format!("noop alias does not leave the data untouched / {name}"), json!({"def": def, "count": n, "set_size": v.len()}));
                        }
                    }
                }
                other => rep.violation(&format!("noop alias rejected / {name}"), json!({"def": def, "result": format!("{other:?}").chars().take(200).collect::<String>()})),
            }
        }
    }
}

pub fn run(tier: Tier) -> Report {
    let rep = Report::new("C13", tier, "exploration");
    rep.rule("complete product of (projection aspect x ellipsoid x shared-parameter alphabet) x fixed lattice; each relation compares two differently parameterised instances of the \
              real code (false origin, lon_0, k_0, axis scaling, utm==tmerc and butm==btmerc for all 60 zones x 2 hemispheres, merc==webmerc on spheres, lat_ts==k_0, lcc 1SP==2SP, \
              noop aliases on all pairs over the 13-value alphabet); distinct_nontrivial = sampled distinct forward images");
    rep.assume("tolerance 1e-7 m absolute plus 1e-13 relative (the relations are exact up to rounding of lon - lon_0)");
    let ellipsoids: Vec<String> = match tier {
        Tier::Quick => vec!["GRS80".into(), "intl".into()],
        Tier::Thorough => crate::props::c01::ellipsoid_names(Tier::Thorough).into_iter().filter(|e| catch(|| Ellipsoid::named(e).is_ok()).unwrap_or(false)).collect(),
    };
    rep.set("ellipsoids", json!(ellipsoids));
    let rels = relations(tier, &ellipsoids);
    rep.set("relations", json!(rels.len()));
    let outcomes = Mutex::new(HashSet::new());
    par_range(rels.len(), |i| run_relation(&rep, &rels[i], &outcomes));
    noop_aliases(&rep);
    for r in rels.iter().step_by(rels.len() / 8 + 1) {
        rep.sample(json!({"relation": r.key, "a": r.def_a, "b": r.def_b, "lattice_points": r.inputs.len()}));
    }
    let o = outcomes.into_inner().unwrap();
    rep.nontrivial_bulk(&o);
    rep.outcomes_bulk(&o);
    rep
}
