//! C19 — coordinate containers and angular encodings are lossless and consistent.
//! Complete enumeration: every container type x every element index 0..dim+2 x a 13-value
//! alphabet (all 4-tuples over it for the set containers); angle lattices (every 0.5" in
//! [-2°,2°], every arc-minute in [-720°,720°], carry neighbourhoods, the (d,m,s) integer lattice).

use crate::engine::*;
use geodesy::authoring::*;
use serde_json::json;
use std::collections::HashSet;
use std::sync::Mutex;

pub const V: [f64; 13] = [
    f64::NAN,
    f64::INFINITY,
    f64::NEG_INFINITY,
    0.0,
    -0.0,
    5e-324,
    1e308,
    -1e308,
    std::f64::consts::FRAC_PI_2,
    -std::f64::consts::PI,
    1.0,
    -1.0,
    0.1,
];

fn f32r(x: f64) -> f64 {
    (x as f32) as f64
}

struct Acc<'a> {
    rep: &'a Report,
    outcomes: Mutex<HashSet<u64>>,
}
impl Acc<'_> {
    fn check(&self, ok: bool, key: &str, detail: impl FnOnce() -> serde_json::Value) {
        self.rep.eval(1);
        if !ok {
            self.rep.violation(key, detail());
        }
    }
    fn seen(&self, h: u64) {
        self.outcomes.lock().unwrap().insert(h);
    }
}

/// Generic tuple checks through the CoordinateTuple trait. `round`: storage rounding (f32 for Coor32)
fn tuple_checks<T: CoordinateTuple + Copy + std::fmt::Debug>(acc: &Acc, name: &str, round: fn(f64) -> f64) {
    let dim = T::new(0.).dim();
    let tuple_bits = |t: &T| (0..dim).map(|i| bits(t.nth(i))).collect::<Vec<_>>();
    for &v in &V {
        // new(fill)
        let t = T::new(v);
        acc.check((0..dim).all(|i| bits(t.nth(i)) == bits(round(v))), &format!("{name}: new(fill) does not fill"), || json!({"type": name, "value": format!("{v:?}")}));
        for n in 0..dim + 3 {
            let mut t = T::new(7.);
            let r = catch(|| {
                t.set_nth(n, v);
                t.nth(n)
            });
            match r {
                Err(p) => acc.check(false, &format!("{name}: element access panics: {}", panic_class(&p)), || json!({"type": name, "index": n, "panic": p})),
                Ok(got) => {
                    if n < dim {
                        acc.check(bits(got) == bits(round(v)), &format!("{name}: set_nth/nth does not return the stored value"), || json!({"type": name, "index": n, "value": format!("{v:?}"), "got": format!("{got:?}")}));
                        // the other elements are untouched
                        acc.check((0..dim).all(|i| i == n || t.nth(i) == 7.), &format!("{name}: set_nth touches other elements"), || json!({"type": name, "index": n}));
                    } else {
                        acc.check(got.is_nan(), &format!("{name}: out-of-range nth is not NaN"), || json!({"type": name, "index": n, "got": format!("{got:?}")}));
                        acc.check((0..dim).all(|i| t.nth(i).is_nan()), &format!("{name}: out-of-range set_nth does not NaN-fill"), || json!({"type": name, "index": n, "tuple": format!("{t:?}")}));
                    }
                    acc.seen(hash_of(&(name, n, tuple_bits(&t))));
                }
            }
        }
        // typed accessors agree with nth
        let mut t = T::new(0.);
        for i in 0..dim {
            t.set_nth(i, if i == 1 { v } else { 10. + i as f64 });
        }
        let typed = [t.x(), t.y(), t.z(), t.t()];
        acc.check((0..4).all(|i| bits(typed[i]) == bits(t.nth(i))), &format!("{name}: x/y/z/t disagree with nth"), || json!({"type": name, "tuple": format!("{t:?}")}));
        let (a, b) = t.xy();
        let (c, d, e) = t.xyz();
        let (f, g, h, i4) = t.xyzt();
        let bulk_ok = bits(a) == bits(typed[0]) && bits(b) == bits(typed[1]) && bits(c) == bits(typed[0]) && bits(d) == bits(typed[1]) && bits(e) == bits(typed[2])
            && bits(f) == bits(typed[0]) && bits(g) == bits(typed[1]) && bits(h) == bits(typed[2]) && bits(i4) == bits(typed[3]);
        acc.check(bulk_ok, &format!("{name}: xy/xyz/xyzt disagree with typed accessors"), || json!({"type": name, "tuple": format!("{t:?}")}));
        // degree / radian / arcsec accessors
        let (dx, dy) = t.xy_to_degrees();
        let (rx, ry) = t.xy_to_radians();
        let (sx, sy) = t.xy_to_arcsec();
        acc.check(
            bits(dx) == bits(typed[0].to_degrees()) && bits(dy) == bits(typed[1].to_degrees()) && bits(rx) == bits(typed[0].to_radians()) && bits(ry) == bits(typed[1].to_radians())
                && bits(sx) == bits(typed[0].to_degrees() * 3600.) && bits(sy) == bits(typed[1].to_degrees() * 3600.),
            &format!("{name}: angular accessors disagree with element-wise conversion"),
            || json!({"type": name, "tuple": format!("{t:?}")}),
        );
        // set_xy / set_xyz / set_xyzt
        for k in 2..=4usize {
            let mut t = T::new(7.);
            match k {
                2 => t.set_xy(v, 2.),
                3 => t.set_xyz(v, 2., 3.),
                _ => t.set_xyzt(v, 2., 3., 4.),
            }
            let want = [v, 2., 3., 4.];
            let ok = if dim >= k { (0..dim).all(|i| bits(t.nth(i)) == bits(round(if i < k { want[i] } else { 7. }))) } else { (0..dim).all(|i| t.nth(i).is_nan()) };
            acc.check(ok, &format!("{name}: bulk setter of {k} elements wrong"), || json!({"type": name, "k": k, "tuple": format!("{t:?}"), "value": format!("{v:?}")}));
        }
        // update with slices of every length 0..6
        for len in 0..=6usize {
            let src: Vec<f64> = (0..len).map(|i| if i == 0 { v } else { 20. + i as f64 }).collect();
            let mut t = T::new(7.);
            let r = catch(|| t.update(&src));
            acc.check(r.is_ok(), &format!("{name}: update panics"), || json!({"type": name, "len": len}));
            let ok = (0..dim).all(|i| bits(t.nth(i)) == bits(round(if i < len { src[i] } else { 7. })));
            acc.check(ok, &format!("{name}: update does not replace exactly the leading elements"), || json!({"type": name, "len": len, "tuple": format!("{t:?}")}));
        }
        // scale, dot
        for &w in &V {
            let mut t = T::new(0.);
            let mut u = T::new(0.);
            for i in 0..dim {
                t.set_nth(i, if i == 0 { v } else { 1.5 });
                u.set_nth(i, if i == 0 { w } else { 2.5 });
            }
            let s = t.scale(w);
            let ok = (0..dim).all(|i| bits(s.nth(i)) == bits(round(t.nth(i) * w)));
            acc.check(ok, &format!("{name}: scale is not element-wise"), || json!({"type": name, "tuple": format!("{t:?}"), "factor": format!("{w:?}"), "got": format!("{s:?}")}));
            let mut dot = 0.;
            for i in 0..dim {
                dot += t.nth(i) * u.nth(i);
            }
            acc.check(bits(t.dot(u)) == bits(dot), &format!("{name}: dot is not the sum of element products"), || json!({"type": name, "a": format!("{t:?}"), "b": format!("{u:?}")}));
        }
    }
}

macro_rules! arith_checks {
    ($acc:expr, $name:expr, $ty:ident, $dim:expr, $elem:ty) => {{
        for &v in &V {
            for &w in &V {
                let mut a = $ty::new(1.5);
                let mut b = $ty::new(2.5);
                a.set_nth(0, v);
                b.set_nth(0, w);
                let results = [a + b, a - b, a * b, a / b, a + &b, a - &b, a * &b, a / &b];
                for (k, r) in results.iter().enumerate() {
                    let ok = (0..$dim).all(|i| {
                        let (x, y) = (a.0[i], b.0[i]);
                        let e = match k % 4 {
                            0 => x + y,
                            1 => x - y,
                            2 => x * y,
                            _ => x / y,
                        };
                        bits(r.0[i] as f64) == bits(e as f64)
                    });
                    $acc.check(ok, &format!("{}: arithmetic operator is not element-wise", $name), || json!({"type": $name, "a": format!("{a:?}"), "b": format!("{b:?}"), "op": k, "got": format!("{r:?}")}));
                }
            }
        }
        // indexing
        let mut a = $ty::new(0.);
        for i in 0..$dim {
            a[i] = (i as $elem) + (1.0 as $elem);
        }
        $acc.check((0..$dim).all(|i| a[i] == a.0[i] && a.nth(i) == a.0[i] as f64), &format!("{}: Index/IndexMut inconsistent", $name), || json!({"type": $name}));
    }};
}

/// A user container relying on the CoordinateSet trait defaults only
pub struct UserSet(pub Vec<[f64; 4]>);
impl CoordinateSet for UserSet {
    fn len(&self) -> usize {
        self.0.len()
    }
    fn dim(&self) -> usize {
        4
    }
    fn get_coord(&self, index: usize) -> Coor4D {
        Coor4D(self.0[index])
    }
    fn set_coord(&mut self, index: usize, value: &Coor4D) {
        self.0[index] = value.0;
    }
}

/// What reading back a written 4-tuple must give, per container kind
#[derive(Clone, Copy)]
struct Kind {
    stored: usize,       // number of stored dimensions
    third: Option<f64>,  // value read in the third element when not stored
    fourth: Option<f64>, // value read in the fourth element when not stored
    f32: bool,
}

fn set_checks(acc: &Acc, name: &str, kind: Kind, set: &mut dyn CoordinateSet, n_expected: usize) {
    acc.check(set.len() == n_expected && set.is_empty() == (n_expected == 0), &format!("{name}: len/is_empty wrong"), || json!({"container": name}));
    let r = |x: f64| if kind.f32 { f32r(x) } else { x };
    let nv = V.len();
    for idx in 0..set.len() {
        for k in 0..nv * nv * nv * nv {
            let d = decode(k, &[nv, nv, nv, nv]);
            // the full 4-tuple product only for index 0; a diagonal elsewhere
            if idx > 0 && !(d[0] == d[1] && d[1] == d[2] && d[2] == d[3]) {
                continue;
            }
            let w = [V[d[0]], V[d[1]], V[d[2]], V[d[3]]];
            set.set_coord(idx, &Coor4D(w));
            let g = set.get_coord(idx).0;
            let want = [
                r(w[0]),
                r(w[1]),
                if kind.stored >= 3 { w[2] } else { kind.third.unwrap() },
                if kind.stored >= 4 { w[3] } else { kind.fourth.unwrap() },
            ];
            let ok = (0..4).all(|i| bits(g[i]) == bits(want[i]));
            acc.check(ok, &format!("{name}: set_coord/get_coord does not return stored dimensions and documented defaults"), || json!({"container": name, "index": idx, "written": format!("{w:?}"), "read": format!("{g:?}"), "expected": format!("{want:?}")}));
            if k % 997 == 0 {
                acc.seen(hash_of(&(name, idx, bits4(g))));
                // accessors agree with get_coord / set_coord
                let (x, y) = set.xy(idx);
                let (a, b, c) = set.xyz(idx);
                let (p, q, s, t) = set.xyzt(idx);
                let ok = bits(x) == bits(g[0]) && bits(y) == bits(g[1]) && bits(a) == bits(g[0]) && bits(b) == bits(g[1]) && bits(c) == bits(g[2])
                    && bits(p) == bits(g[0]) && bits(q) == bits(g[1]) && bits(s) == bits(g[2]) && bits(t) == bits(g[3]);
                acc.check(ok, &format!("{name}: xy/xyz/xyzt accessors disagree with get_coord"), || json!({"container": name, "read": format!("{g:?}"), "xyzt": format!("{:?}", (p, q, s, t)), "xyz": format!("{:?}", (a, b, c))}));
                set.set_xy(idx, 3.5, w[1]);
                let g2 = set.get_coord(idx).0;
                acc.check(bits(g2[0]) == bits(3.5) && bits(g2[1]) == bits(r(w[1])) && bits(g2[2]) == bits(g[2]) && bits(g2[3]) == bits(g[3]), &format!("{name}: set_xy wrong"), || json!({"container": name, "before": format!("{g:?}"), "after": format!("{g2:?}")}));
                set.set_xyz(idx, w[0], 4.5, 5.5);
                let g3 = set.get_coord(idx).0;
                let want3 = [r(w[0]), 4.5, if kind.stored >= 3 { 5.5 } else { kind.third.unwrap() }, g[3]];
                acc.check((0..4).all(|i| bits(g3[i]) == bits(want3[i])), &format!("{name}: set_xyz wrong"), || json!({"container": name, "after": format!("{g3:?}"), "expected": format!("{want3:?}")}));
                set.set_xyzt(idx, 1.5, w[1], 2.5, w[3]);
                let g4 = set.get_coord(idx).0;
                let want4 = [1.5, r(w[1]), if kind.stored >= 3 { 2.5 } else { kind.third.unwrap() }, if kind.stored >= 4 { w[3] } else { kind.fourth.unwrap() }];
                acc.check((0..4).all(|i| bits(g4[i]) == bits(want4[i])), &format!("{name}: set_xyzt wrong"), || json!({"container": name, "after": format!("{g4:?}"), "expected": format!("{want4:?}")}));
            }
        }
    }
    // stomp
    set.stomp();
    for idx in 0..set.len() {
        let g = set.get_coord(idx).0;
        let ok = (0..kind.stored.min(4)).all(|i| g[i].is_nan());
        acc.check(ok, &format!("{name}: stomp does not set all stored dimensions to NaN"), || json!({"container": name, "read": format!("{g:?}")}));
    }
}

fn containers(acc: &Acc) {
    let k4 = Kind { stored: 4, third: None, fourth: None, f32: false };
    let k3 = Kind { stored: 3, third: None, fourth: Some(f64::NAN), f32: false };
    let k2 = Kind { stored: 2, third: Some(0.), fourth: Some(f64::NAN), f32: false };
    let k32 = Kind { stored: 2, third: Some(0.), fourth: Some(f64::NAN), f32: true };
    // 4D
    let mut a = [Coor4D::origin(); 2];
    set_checks(acc, "[Coor4D; 2]", k4, &mut a, 2);
    let mut v = vec![Coor4D::origin(); 2];
    set_checks(acc, "Vec<Coor4D>", k4, &mut v, 2);
    let mut s: &mut [Coor4D] = &mut v[..];
    set_checks(acc, "&mut [Coor4D]", k4, &mut s, 2);
    let mut e: Vec<Coor4D> = vec![];
    set_checks(acc, "Vec<Coor4D> (empty)", k4, &mut e, 0);
    // 3D
    let mut a = [Coor3D::origin(); 2];
    set_checks(acc, "[Coor3D; 2]", k3, &mut a, 2);
    let mut v = vec![Coor3D::origin(); 2];
    set_checks(acc, "Vec<Coor3D>", k3, &mut v, 2);
    let mut s: &mut [Coor3D] = &mut v[..];
    set_checks(acc, "&mut [Coor3D]", k3, &mut s, 2);
    // 2D
    let mut a = [Coor2D::origin(); 2];
    set_checks(acc, "[Coor2D; 2]", k2, &mut a, 2);
    let mut v = vec![Coor2D::origin(); 2];
    set_checks(acc, "Vec<Coor2D>", k2, &mut v, 2);
    let mut s: &mut [Coor2D] = &mut v[..];
    set_checks(acc, "&mut [Coor2D]", k2, &mut s, 2);
    // 32 bit
    let mut a = [Coor32::origin(); 2];
    set_checks(acc, "[Coor32; 2]", k32, &mut a, 2);
    let mut v = vec![Coor32::origin(); 2];
    set_checks(acc, "Vec<Coor32>", k32, &mut v, 2);
    let mut s: &mut [Coor32] = &mut v[..];
    set_checks(acc, "&mut [Coor32]", k32, &mut s, 2);
    // adapters: fixed epoch for 3D, fixed height + epoch for 2D, for several fixed values
    for &h in &[0., 100.5, f64::NAN, -1e308] {
        for &t in &[2020.5, f64::NAN, f64::INFINITY] {
            let mut p = (vec![Coor3D::origin(); 2], t);
            set_checks(acc, &format!("(Vec<Coor3D>, t={t:?})"), Kind { stored: 3, third: None, fourth: Some(t), f32: false }, &mut p, 2);
            let mut p = ([Coor2D::origin(); 2], h, t);
            set_checks(acc, &format!("([Coor2D;2], h={h:?}, t={t:?})"), Kind { stored: 2, third: Some(h), fourth: Some(t), f32: false }, &mut p, 2);
            let mut p = (vec![Coor32::origin(); 2], h, t);
            set_checks(acc, &format!("(Vec<Coor32>, h={h:?}, t={t:?})"), Kind { stored: 2, third: Some(h), fourth: Some(t), f32: true }, &mut p, 2);
            // around a container that has the dimension itself: the adapter's fixed value is what is read
            let mut p = (vec![Coor4D::origin(); 2], t);
            set_checks(acc, &format!("(Vec<Coor4D>, t={t:?})"), Kind { stored: 3, third: None, fourth: Some(t), f32: false }, &mut p, 2);
            let mut p = (vec![Coor4D::origin(); 2], h, t);
            set_checks(acc, &format!("(Vec<Coor4D>, h={h:?}, t={t:?})"), Kind { stored: 2, third: Some(h), fourth: Some(t), f32: false }, &mut p, 2);
            let mut p = ([Coor3D::origin(); 2], h, t);
            set_checks(acc, &format!("([Coor3D;2], h={h:?}, t={t:?})"), Kind { stored: 2, third: Some(h), fourth: Some(t), f32: false }, &mut p, 2);
        }
    }
    // the user container through the trait defaults
    let mut u = UserSet(vec![[0.; 4]; 2]);
    set_checks(acc, "user container (trait defaults)", k4, &mut u, 2);
}

// ----- angles ------------------------------------------------------------------------------------

fn ulp(x: f64) -> f64 {
    let x = x.abs().max(f64::MIN_POSITIVE);
    f64::from_bits(x.to_bits() + 1) - x
}

fn angles(acc: &Acc, tier: Tier) {
    use angular::*;
    // (d, m, s) integer lattice incl. d = 0 and negative degrees
    let mut n_dms = 0u64;
    for d in -720..=720i32 {
        for m in 0..60u16 {
            for &s in &[0., 0.5, 30., 59.5] {
                let exp = (d.abs() as f64 + m as f64 / 60. + s / 3600.) * if d < 0 { -1. } else { 1. };
                let got = dms_to_dd(d, m, s);
                n_dms += 1;
                let cls = if d == 0 { "zero degrees" } else if d < 0 { "negative degrees" } else { "positive degrees" };
                acc.check((got - exp).abs() <= 4. * ulp(exp), &format!("dms_to_dd wrong for {cls}"), || json!({"fn": "dms_to_dd", "d": d, "m": m, "s": s, "got": got, "expected": exp}));
                if s == 0. {
                    let mm = m as f64 + 0.25;
                    let exp = (d.abs() as f64 + mm / 60.) * if d < 0 { -1. } else { 1. };
                    let got = dm_to_dd(d, mm);
                    acc.check((got - exp).abs() <= 4. * ulp(exp), &format!("dm_to_dd wrong for {cls}"), || json!({"fn": "dm_to_dd", "d": d, "m": mm, "got": got, "expected": exp}));
                }
            }
        }
    }
    acc.rep.set("dms_lattice_points", json!(n_dms));

    // the textual degree:minute:second encoding (D, D:M, D:M:S with a sign prefix or a hemisphere letter):
    // complete product degrees {0..3, 59, 60, 179, 180, 359} x minutes x seconds x sign spelling x fields
    let mut n_text = 0u64;
    for d in [0u32, 1, 2, 3, 59, 60, 179, 180, 359] {
        for m in [0u32, 1, 30, 59] {
            for s in ["0", "0.5", "36", "59.999", "00.25"] {
                for fields in 1..=3 {
                    let (mag_text, mag) = match fields {
                        1 => (format!("{d}.{m:02}"), format!("{d}.{m:02}").parse::<f64>().unwrap()),
                        2 => (format!("{d}:{m}"), d as f64 + m as f64 / 60.),
                        _ => (format!("{d}:{m}:{s}"), d as f64 + (m as f64 + s.parse::<f64>().unwrap() / 60.) / 60.),
                    };
                    for (spelling, text, sign) in [
                        ("unsigned", mag_text.clone(), 1.),
                        ("plus prefix", format!("+{mag_text}"), 1.),
                        ("minus prefix", format!("-{mag_text}"), -1.),
                        ("N/E letter", format!("{mag_text}{}", if m % 2 == 0 { "N" } else { "e" }), 1.),
                        ("S/W letter", format!("{mag_text}{}", if m % 2 == 0 { "S" } else { "w" }), -1.),
                    ] {
                        n_text += 1;
                        let exp = sign * mag;
                        let got = parse_sexagesimal(&text);
                        let cls = if d == 0 { "zero degrees" } else { "non-zero degrees" };
                        let form = ["", "plain decimal", "D:M", "D:M:S"][fields];
                        acc.check(
                            (got - exp).abs() <= 4. * ulp(exp) && (mag == 0. || got.signum() == exp.signum()),
                            &format!("parse_sexagesimal wrong for {cls} / {form} / {spelling}"),
                            || json!({"fn": "parse_sexagesimal", "text": text, "got": got, "expected": exp}),
                        );
                        acc.seen(hash_of(&bits(got)));
                    }
                }
            }
        }
    }
    acc.rep.set("sexagesimal_texts", json!(n_text));

    // decimal degree lattices
    let mut lattice: Vec<f64> = Vec::new();
    let fine = tier.pick(10i64, 100); // quick: every 0.5" in [-2°, 2°]; thorough: every 0.05"
    for k in -1440 * fine..=1440 * fine {
        lattice.push(k as f64 * (5. / fine as f64) / 3600.);
    }
    let coarse = tier.pick(1i64, 60); // quick: every arc-minute in [-720°, 720°]; thorough: every arc-second
    for k in -43200 * coarse..=43200 * coarse {
        lattice.push(k as f64 / (60. * coarse as f64));
    }
    for d in (0..=720).step_by(7).chain([0, 1, 59, 60, 89, 90, 179, 180, 359, 360, 719]) {
        for m in [0, 1, 29, 58, 59] {
            for eps in [0.0005 / 3600., 1e-9, 1e-12, 3e-14] {
                // just below and just above a minute / degree carry
                let base = d as f64 + (m as f64 + 1.) / 60.;
                for x in [base - eps, base + eps, -(base - eps), -(base + eps)] {
                    lattice.push(x);
                }
            }
        }
    }
    acc.rep.set("angle_lattice_points", json!(lattice.len()));
    for &dd in &lattice {
        let sign_class = if dd.abs() < 1. { "|angle| < 1°" } else { "|angle| >= 1°" };
        // dd -> iso -> dd
        let iso = dd_to_iso_dm(dd);
        let back = iso_dm_to_dd(iso);
        let tol = 4. * ulp(iso) / 60. + 4. * ulp(dd);
        acc.check((back - dd).abs() <= tol, &format!("dd -> DDDMM.mmm -> dd loses more than rounding ({sign_class})"), || json!({"fn": "iso_dm", "dd": dd, "iso": iso, "back": back}));
        // the encoding itself: DDDMM.mmm digits
        let (d, m) = (dd.abs().floor(), (dd.abs() - dd.abs().floor()) * 60.);
        let enc = (d * 100. + m) * if dd < 0. { -1. } else { 1. };
        acc.check((iso - enc).abs() <= 8. * ulp(enc).max(ulp(60.)), &format!("dd_to_iso_dm is not DDDMM.mmm ({sign_class})"), || json!({"fn": "dd_to_iso_dm", "dd": dd, "iso": iso, "expected": enc}));
        let iso = dd_to_iso_dms(dd);
        let back = iso_dms_to_dd(iso);
        let tol = 4. * ulp(iso) / 3600. + 4. * ulp(dd);
        acc.check((back - dd).abs() <= tol, &format!("dd -> DDDMMSS.sss -> dd loses more than rounding ({sign_class})"), || json!({"fn": "iso_dms", "dd": dd, "iso": iso, "back": back}));
        // (that the minutes/seconds fields of the encoded number stay below 60 is NOT required: the
        // encoded value is rounded to f64, so 1°57'59.9999999999996" legitimately becomes 15760.0,
        // which decodes to the same angle; an earlier version of this check demanded it — false alarm)
        acc.seen(hash_of(&(bits(iso), bits(back))));
    }

    // the dm / dms operators agree with the functions and round trip
    let mut ctx = Minimal::default();
    let opdm = ctx.op("dm").unwrap();
    let opdms = ctx.op("dms").unwrap();
    for (i, &lat) in lattice.iter().enumerate().step_by(7) {
        if lat.abs() > 90. {
            continue;
        }
        let lon = lattice[(i * 31 + 5) % lattice.len()].clamp(-180., 180.);
        for (op, enc, dec, name) in [
            (opdm, dd_to_iso_dm as fn(f64) -> f64, iso_dm_to_dd as fn(f64) -> f64, "dm"),
            (opdms, dd_to_iso_dms as fn(f64) -> f64, iso_dms_to_dd as fn(f64) -> f64, "dms"),
        ] {
            let mut data = [Coor4D([enc(lat), enc(lon), 12.5, 2020.])];
            let n = ctx.apply(op, Fwd, &mut data).unwrap();
            let want = [dec(enc(lon)).to_radians(), dec(enc(lat)).to_radians(), 12.5, 2020.];
            let ok = n == 1 && (0..4).all(|k| (data[0].0[k] - want[k]).abs() <= 4. * ulp(want[k]));
            acc.check(ok, &format!("operator {name} forward disagrees with the angular functions"), || json!({"op": name, "lat": lat, "lon": lon, "got": data[0].0, "expected": want}));
            let n = ctx.apply(op, Inv, &mut data).unwrap();
            let ok = n == 1 && (dec(data[0].0[0]) - lat).abs() < 1e-11 && (dec(data[0].0[1]) - lon).abs() < 1e-11 && data[0].0[2] == 12.5 && data[0].0[3] == 2020.;
            acc.check(ok, &format!("operator {name} inverse does not undo forward"), || json!({"op": name, "lat": lat, "lon": lon, "got": data[0].0}));
        }
    }

    // normalisation
    use std::f64::consts::PI;
    let mut angs: Vec<f64> = (-2880..=2880).map(|k| (k as f64 * 0.25).to_radians()).collect();
    for k in -4..=4 {
        for e in [0., 1e-15, -1e-15, 1e-9, -1e-9] {
            angs.push(k as f64 * PI + e);
        }
    }
    for &a in &angs {
        let s = normalize_symmetric(a);
        let p = normalize_positive(a);
        let equiv = |r: f64| ((r - a) / 2.).sin().abs() < 1e-9;
        acc.check(equiv(s) && (-PI..=PI).contains(&s), "normalize_symmetric: not an equivalent angle in [-pi, pi]", || json!({"fn": "normalize_symmetric", "angle": a, "got": s}));
        acc.check(equiv(p) && (0. ..=2. * PI).contains(&p), "normalize_positive: not an equivalent angle in [0, 2pi]", || json!({"fn": "normalize_positive", "angle": a, "got": p}));
    }

    // constructors and unit conversions of the tuple types
    for (i, &lat) in lattice.iter().enumerate().step_by(101) {
        let lon = lattice[(i * 17 + 3) % lattice.len()];
        let c = Coor4D::geo(lat, lon, 1., 2.);
        let g = Coor4D::gis(lon, lat, 1., 2.);
        let r = Coor4D::raw(lon.to_radians(), lat.to_radians(), 1., 2.);
        let s = Coor4D::arcsec(lon * 3600., lat * 3600., 1., 2.);
        let ok = c == g && g == r && (0..2).all(|k| (s.0[k] - r.0[k]).abs() <= 4. * ulp(r.0[k])) && s.0[2] == 1. && s.0[3] == 2.;
        acc.check(ok, "Coor4D constructors geo/gis/raw/arcsec disagree", || json!({"lat": lat, "lon": lon, "geo": c.0, "gis": g.0, "arcsec": s.0}));
        let deg = c.to_degrees();
        let geo = c.to_geo();
        let sec = c.to_arcsec();
        let ok = bits(deg.0[0]) == bits(c.0[0].to_degrees()) && bits(deg.0[1]) == bits(c.0[1].to_degrees()) && bits(geo.0[0]) == bits(deg.0[1]) && bits(geo.0[1]) == bits(deg.0[0])
            && bits(sec.0[0]) == bits(c.0[0].to_degrees() * 3600.) && deg.0[2] == 1. && geo.0[3] == 2. && bits(c.to_degrees().to_radians().0[2]) == bits(1.);
        acc.check(ok, "AngularUnits conversions disagree with element-wise conversion", || json!({"tuple": c.0}));
        let c3 = Coor3D::geo(lat, lon, 1.);
        let c2 = Coor2D::geo(lat, lon);
        let c32 = Coor32::geo(lat, lon);
        let ok = c3.0 == [c.0[0], c.0[1], 1.] && c2.0 == [c.0[0], c.0[1]] && c32.0 == [c.0[0] as f32, c.0[1] as f32]
            && Coor3D::gis(lon, lat, 1.) == c3 && Coor2D::gis(lon, lat) == c2 && Coor4D::iso_dm(dd_to_iso_dm(lat), dd_to_iso_dm(lon), 1., 2.).0[2] == 1.;
        acc.check(ok, "Coor3D/Coor2D/Coor32 constructors disagree with Coor4D", || json!({"lat": lat, "lon": lon}));
    }
}

pub fn run(tier: Tier) -> Report {
    let rep = Report::new("C19", tier, "exploration");
    rep.rule("complete products: tuple types x element index 0..dim+2 x 13 special values (pairs of them for arithmetic); set containers x all 13^4 \
              written tuples (index 0; diagonal for other indices); adapters x fixed heights/epochs; angle lattices (every 0.5\" in [-2°,2°], every \
              arc-minute in [-720°,720°], carry neighbourhoods, (d,m,s) lattice). Non-trivial/distinct = distinct observed read-back / encoding bit pattern");
    rep.assume("'lossless beyond rounding' is judged as 4 ulp of the encoded value in its finest unit plus 4 ulp of the angle");
    rep.assume("normalised angles are accepted in the closed range (an exact multiple of pi may map to either end)");
    let acc = Acc { rep: &rep, outcomes: Mutex::new(HashSet::new()) };
    tuple_checks::<Coor4D>(&acc, "Coor4D", |x| x);
    tuple_checks::<Coor3D>(&acc, "Coor3D", |x| x);
    tuple_checks::<Coor2D>(&acc, "Coor2D", |x| x);
    tuple_checks::<Coor32>(&acc, "Coor32", f32r);
    tuple_checks::<(f64, f64)>(&acc, "(f64, f64)", |x| x);
    arith_checks!(acc, "Coor4D", Coor4D, 4, f64);
    arith_checks!(acc, "Coor3D", Coor3D, 3, f64);
    arith_checks!(acc, "Coor2D", Coor2D, 2, f64);
    arith_checks!(acc, "Coor32", Coor32, 2, f32);
    // the inherent (not trait default) scale and dot of the concrete tuple types agree with the element-wise definition
    for &x in V.iter().chain([1e-10, 1e30, 3.5].iter()) {
        for &w in V.iter().chain([1e39, 1e-46, 0.1, -2.].iter()) {
            rep.eval(4);
            let same = |a: f64, b: f64| bits(a) == bits(b) || (a.is_nan() && b.is_nan());
            let c32 = Coor32([x as f32, 1.]).scale(w);
            let ok32 = same(c32.0[0] as f64, ((x as f32) as f64 * w) as f32 as f64) && same(c32.0[1] as f64, (1.0 * w) as f32 as f64);
            acc.check(ok32, "Coor32: inherent scale is not element-wise (factor narrowed to 32 bits first)", || json!({"tuple": [x, 1.], "factor": format!("{w:?}"), "got": format!("{:?}", c32.0)}));
            let c2 = Coor2D([x, 1.]).scale(w);
            acc.check(same(c2.0[0], x * w) && same(c2.0[1], w), "Coor2D: inherent scale is not element-wise", || json!({"tuple": [x, 1.], "factor": format!("{w:?}"), "got": format!("{:?}", c2.0)}));
            let c3 = Coor3D([x, 1., -1.]).scale(w);
            acc.check(same(c3.0[0], x * w) && same(c3.0[2], -w), "Coor3D: inherent scale is not element-wise", || json!({"tuple": [x, 1., -1.], "factor": format!("{w:?}"), "got": format!("{:?}", c3.0)}));
            let c4 = Coor4D([x, 1., -1., 2.]).scale(w);
            acc.check(same(c4.0[0], x * w) && same(c4.0[3], 2. * w), "Coor4D: inherent scale is not element-wise", || json!({"tuple": [x, 1., -1., 2.], "factor": format!("{w:?}"), "got": format!("{:?}", c4.0)}));
        }
    }
    // the inherent dot of the concrete types on values whose products need more than 24 bits, or leave the range of
    // f32: the sum of the products of the STORED elements, in f64 (round 11: a 32-bit tuple that multiplied in f32)
    {
        let w: [f64; 9] = [4097., 0.1, 0.7, -3.3, 1e20, -1e20, 1e-30, 16777217., 123456.789];
        for &a0 in &w {
            for &a1 in &w {
                for &b0 in &w {
                    for &b1 in &w {
                        rep.eval(4);
                        let same = |a: f64, b: f64| bits(a) == bits(b) || (a.is_nan() && b.is_nan());
                        let (p, q) = (Coor32([a0 as f32, a1 as f32]), Coor32([b0 as f32, b1 as f32]));
                        let want = (p.0[0] as f64) * (q.0[0] as f64) + (p.0[1] as f64) * (q.0[1] as f64);
                        acc.check(same(p.dot(q), want), "Coor32: inherent dot is not the sum of the element products", || json!({"a": format!("{:?}", p.0), "b": format!("{:?}", q.0), "got": p.dot(q), "expected": want}));
                        acc.check(same(Coor2D([a0, a1]).dot(Coor2D([b0, b1])), a0 * b0 + a1 * b1), "Coor2D: inherent dot is not the sum of the element products", || json!({"a": [a0, a1], "b": [b0, b1]}));
                        acc.check(same(Coor3D([a0, a1, b1]).dot(Coor3D([b0, b1, a0])), a0 * b0 + a1 * b1 + b1 * a0), "Coor3D: inherent dot is not the sum of the element products", || json!({"a": [a0, a1, b1], "b": [b0, b1, a0]}));
                        acc.check(same(Coor4D([a0, a1, b1, b0]).dot(Coor4D([b0, b1, a0, a1])), a0 * b0 + a1 * b1 + b1 * a0 + b0 * a1), "Coor4D: inherent dot is not the sum of the element products", || json!({"a": [a0, a1, b1, b0], "b": [b0, b1, a0, a1]}));
                    }
                }
            }
        }
    }
    match catch(|| containers(&acc)) {
        Ok(()) => {}
        Err(p) => rep.violation(&format!("container access panics: {}", panic_class(&p)), json!({"panic": p})),
    }
    match catch(|| angles(&acc, tier)) {
        Ok(()) => {}
        Err(p) => rep.violation(&format!("angular function panics: {}", panic_class(&p)), json!({"panic": p})),
    }
    let o = acc.outcomes.into_inner().unwrap();
    rep.nontrivial_bulk(&o);
    rep.outcomes_bulk(&o);
    rep.sample(json!({"container": "(Vec<Coor32>, h=100.5, t=2020.5)", "written": [0.1, -1e308, 1.0, 5e-324], "read": [f32r(0.1), "-inf", 100.5, 2020.5]}));
    rep.sample(json!({"fn": "dd_to_iso_dms/iso_dms_to_dd", "dd": -0.5 / 3600., "iso": angular::dd_to_iso_dms(-0.5 / 3600.)}));
    rep
}
