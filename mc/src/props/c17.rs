//! C17 — PROJ strings are translated without changing their meaning.
//!
//! Program tree: PROJ pipelines of 1..3 steps over the operators both systems share x per-step
//! {inv, omit_fwd, omit_inv, inv + omit_fwd, inv + omit_inv} x pipeline-level {none, inv} x globals {none, ellps, a key clashing
//! with a step-local one} x '+' prefix styles x layouts. Oracle: an independent translator in the
//! harness renders the hand-written Geodesy counterpart (instantiated in a Minimal context);
//! Plain::op(PROJ) must have the same fingerprint; pipeline-level inv must be exactly the inverse
//! of the non-inverted pipeline; parse_proj idempotent; non-PROJ text unchanged; init / nested
//! pipelines refused.

use crate::engine::*;
use crate::util::*;
use geodesy::authoring::*;
use serde_json::{json, Value};
use std::collections::HashSet;
use std::sync::Mutex;

#[derive(Clone, Debug)]
struct PStep {
    kind: usize,
    modifier: u8, // 0 none, 1 inv, 2 omit_fwd, 3 omit_inv, 4 inv + omit_fwd, 5 inv + omit_inv
}

/// (proj name, PROJ args, geodesy args)
const KINDS: [(&str, &str, &str); 13] = [
    ("cart", "ellps=intl", "ellps=intl"),
    ("helmert", "x=3 y=5 z=7", "x=3 y=5 z=7"),
    ("utm", "zone=32", "zone=32"),
    ("tmerc", "lat_0=0 lon_0=9 k=0.9996 x_0=500000", "lat_0=0 lon_0=9 k_0=0.9996 x_0=500000"),
    ("axisswap", "order=2,1", "order=2,1"),
    ("unitconvert", "xy_in=deg xy_out=rad", "xy_in=deg xy_out=rad"),
    ("noop", "", ""),
    ("laea", "lat_0=52 lon_0=10 x_0=4321000 y_0=3210000", "lat_0=52 lon_0=10 x_0=4321000 y_0=3210000"),
    ("lcc", "lat_1=33 lat_2=45 lon_0=10", "lat_1=33 lat_2=45 lon_0=10"),
    ("merc", "lat_ts=56", "lat_ts=56"),
    ("cart", "a=6378160 rf=298.25", "ellps=6378160,298.25"),
    // both renames in one step, k after and before the ellipsoid elements
    ("tmerc", "lon_0=9 a=6378249.145 rf=293.465 k=0.9996", "lon_0=9 ellps=6378249.145,293.465 k_0=0.9996"),
    ("tmerc", "k=0.9996 rf=293.465 lon_0=9 a=6378249.145", "lon_0=9 ellps=6378249.145,293.465 k_0=0.9996"),
];

const GLOBALS: [(&str, &str); 6] = [
    ("", ""),
    ("ellps=intl", "ellps=intl"),
    ("zone=33 x=9", "zone=33 x=9"),
    // the renames apply to pipeline-level parameters too
    ("k=0.9992", "k_0=0.9992"),
    ("rf=298.3 a=6378245", "ellps=6378245,298.3"),
    // a directional modifier at pipeline level reaches every step (and is exchanged under a pipeline-level inv),
    // also when it is not the only pipeline-level parameter
    ("omit_fwd ellps=intl", "omit_fwd ellps=intl"),
];

#[derive(Clone, Debug)]
struct PProg {
    steps: Vec<PStep>,
    pipeline_inv: bool,
    globals: usize,
    plus: u8,   // 0 none, 1 all, 2 mixed
    layout: u8, // 0 single line, 1 newline per step, 2 comments + CRLF, 3 tab-indented lines, 4 comments containing a pipe character, 5 blanks around every '='
    explicit_pipeline: bool,
    mod_first: bool, // modifier written before proj=
}

fn modifier_text(m: u8) -> &'static str {
    ["", "inv", "omit_fwd", "omit_inv", "inv omit_fwd", "inv omit_inv"][m as usize]
}

fn render_proj(p: &PProg) -> String {
    let mut tokens: Vec<Vec<String>> = Vec::new(); // groups: one per "line"
    let single = p.steps.len() == 1 && !p.explicit_pipeline;
    if !single {
        let mut g = vec!["proj=pipeline".to_string()];
        if !GLOBALS[p.globals].0.is_empty() {
            g.extend(GLOBALS[p.globals].0.split(' ').map(|s| s.to_string()));
        }
        if p.pipeline_inv {
            g.push("inv".to_string());
        }
        tokens.push(g);
    }
    for st in &p.steps {
        let mut g: Vec<String> = Vec::new();
        if !single {
            g.push("step".to_string());
        }
        let m = modifier_text(st.modifier);
        if p.mod_first && !m.is_empty() {
            g.extend(m.split(' ').map(|s| s.to_string()));
        }
        g.push(format!("proj={}", KINDS[st.kind].0));
        if !KINDS[st.kind].1.is_empty() {
            g.extend(KINDS[st.kind].1.split(' ').map(|s| s.to_string()));
        }
        if !p.mod_first && !m.is_empty() {
            g.extend(m.split(' ').map(|s| s.to_string()));
        }
        tokens.push(g);
    }
    let mut k = 0;
    let mut lines: Vec<String> = Vec::new();
    for g in tokens {
        let mut parts = Vec::new();
        for t in g {
            let plus = match p.plus {
                0 => false,
                1 => true,
                _ => k % 2 == 0,
            };
            k += 1;
            parts.push(if plus { format!("+{t}") } else { t });
        }
        lines.push(parts.join(" "));
    }
    match p.layout {
        0 => lines.join(" "),
        1 => lines.join("\n"),
        2 => format!("# a PROJ pipeline\r\n{}\r\n", lines.join("   # trailing comment\r\n")),
        3 => lines.join("\n\t"),
        5 => lines.join(" ").replace('=', " = "),
        // 6..9: white space other than blank, tab and line break between all tokens
        6 => lines.join(" ").replace(' ', "\u{c}"),
        7 => lines.join(" ").replace(' ', "\u{b}"),
        8 => lines.join(" ").replace(' ', "\u{a0}"),
        9 => lines.join("\u{2003} "),
        // comments and lone CR line ends (a comment ends where its line ends)
        10 => format!("# a PROJ pipeline\r{}\r", lines.join("   # trailing comment\r")),
        _ => format!("# geodesy: a | b\n{}\n", lines.join("   # was: x | y\n")),
    }
}

/// The independent translation: hand-written Geodesy counterpart of the NON-inverted pipeline
fn render_geodesy(p: &PProg) -> String {
    let single = p.steps.len() == 1 && !p.explicit_pipeline;
    let mut steps = Vec::new();
    for st in &p.steps {
        let mut parts = vec![KINDS[st.kind].0.to_string()];
        if !single && !GLOBALS[p.globals].1.is_empty() {
            parts.push(GLOBALS[p.globals].1.to_string()); // globals first: step-local values win
        }
        if !KINDS[st.kind].2.is_empty() {
            parts.push(KINDS[st.kind].2.to_string());
        }
        let m = modifier_text(st.modifier);
        if !m.is_empty() {
            parts.push(m.to_string());
        }
        steps.push(parts.join(" "));
    }
    if steps.len() == 1 {
        // a one-step PROJ pipeline is a one-step Geodesy pipeline when a modifier must be honoured
        return format!("| {}", steps[0]);
    }
    steps.join(" | ")
}

fn fp_of<C: Context>(ctx: &mut C, def: &str) -> Result<Vec<u64>, String> {
    match catch(|| ctx.op(def).map(|op| fingerprint(ctx, op)).map_err(|e| e.to_string())) {
        Ok(r) => r,
        Err(p) => Err(format!("PANIC {p}")),
    }
}

fn swap_dirs(fp: &[u64]) -> Vec<u64> {
    let h = fp.len() / 2;
    let mut v = fp[h..].to_vec();
    v.extend_from_slice(&fp[..h]);
    v
}

fn shape_key(p: &PProg) -> String {
    let mods: Vec<&str> = p.steps.iter().map(|s| modifier_text(s.modifier)).map(|m| if m.is_empty() { "-" } else { m }).collect();
    format!(
        "steps[{}]{}{}",
        mods.join(","),
        if p.pipeline_inv { " pipeline-inv" } else { "" },
        if p.globals > 0 { " globals" } else { "" }
    )
}

fn check(p: &PProg) -> Result<u64, (String, Value)> {
    let proj = render_proj(p);
    let geo = render_geodesy(p);
    let mut plain = Plain::default();
    let mut minimal = Minimal::default();
    let reference = match fp_of(&mut minimal, &geo) {
        Ok(f) => f,
        Err(e) => return Err(("machinery: reference definition does not instantiate".into(), json!({"geodesy": geo, "error": e}))),
    };
    let reference = if p.pipeline_inv { swap_dirs(&reference) } else { reference };
    // translation is idempotent and is what Plain instantiates
    let translated = match catch(|| parse_proj(&proj)) {
        Err(pn) => return Err((format!("parse_proj panics: {}", panic_class(&pn)), json!({"proj": proj, "panic": pn}))),
        Ok(Err(e)) => return Err(("valid PROJ string refused".into(), json!({"proj": proj, "error": e.to_string()}))),
        Ok(Ok(t)) => t,
    };
    match catch(|| parse_proj(&translated)) {
        Ok(Ok(t2)) if t2 == translated => {}
        other => return Err(("translation is not idempotent".into(), json!({"proj": proj, "once": translated, "twice": format!("{other:?}")}))),
    }
    match fp_of(&mut plain, &proj) {
        Err(e) => Err((
            format!("PROJ string does not instantiate ({}) / {}", e.split(' ').next().unwrap_or(""), shape_key(p)),
            json!({"proj": proj, "translated": translated, "counterpart": geo, "error": e}),
        )),
        Ok(got) => {
            if got != reference {
                Err((
                    format!("PROJ string behaves differently from its Geodesy counterpart / {}", shape_key(p)),
                    json!({"proj": proj, "translated": translated, "counterpart": geo, "pipeline_inv": p.pipeline_inv}),
                ))
            } else {
                Ok(hash_of(&got))
            }
        }
    }
}

/// Greedy minimisation of a failing program: drop steps, modifiers and options while the same
/// clause (the text before " / ") still fails, so that one root cause is reported under one key
fn minimise(p: &PProg, first: (String, Value)) -> (String, Value) {
    let clause = |k: &str| k.split(" / ").next().unwrap_or("").to_string();
    let want = clause(&first.0);
    if want.starts_with("machinery") {
        return first;
    }
    let mut best = p.clone();
    let mut best_err = first;
    loop {
        let mut candidates: Vec<PProg> = Vec::new();
        for i in 0..best.steps.len() {
            if best.steps.len() > 2 {
                let mut c = best.clone();
                c.steps.remove(i);
                candidates.push(c);
            }
            if best.steps[i].modifier != 0 {
                let mut c = best.clone();
                c.steps[i].modifier = 0;
                candidates.push(c);
                if best.steps[i].modifier >= 4 {
                    for m in [1, best.steps[i].modifier - 2] {
                        let mut c = best.clone();
                        c.steps[i].modifier = m;
                        candidates.push(c);
                    }
                }
            }
            if best.steps[i].kind != 1 {
                let mut c = best.clone();
                c.steps[i].kind = 1; // helmert: the plainest invertible step
                candidates.push(c);
            }
        }
        for f in 0..5 {
            let mut c = best.clone();
            match f {
                0 if c.pipeline_inv => c.pipeline_inv = false,
                1 if c.globals != 0 => c.globals = 0,
                2 if c.plus != 0 => c.plus = 0,
                3 if c.layout != 0 => c.layout = 0,
                4 if c.mod_first => c.mod_first = false,
                _ => continue,
            }
            candidates.push(c);
        }
        let mut improved = false;
        for c in candidates {
            if let Err(e) = check(&c) {
                if clause(&e.0) == want {
                    best = c;
                    best_err = e;
                    improved = true;
                    break;
                }
            }
        }
        if !improved {
            break;
        }
    }
    let mut d = best_err.1;
    d["found_in"] = json!(render_proj(p));
    (best_err.0, d)
}

fn enumerate(rep: &Report, kinds: &[usize], len: usize, label: &str, keep: &(dyn Fn(&[usize]) -> bool + Sync)) {
    let step_variants: Vec<PStep> = kinds.iter().flat_map(|&k| (0..6u8).map(move |m| PStep { kind: k, modifier: m })).collect();
    let a = step_variants.len();
    // options: pipeline_inv(2) x globals(5) x plus(3) x layout(5) x explicit(2) x mod_first(2)
    let opt_radix = [2usize, GLOBALS.len(), 3, 11, 2, 2];
    let nopt = product(&opt_radix);
    let total = a.pow(len as u32) * nopt;
    let outcomes = Mutex::new(HashSet::new());
    par_range(total, |i| {
        let o = decode(i % nopt, &opt_radix);
        let idx = decode(i / nopt, &vec![a; len]);
        let steps: Vec<PStep> = idx.iter().map(|&j| step_variants[j].clone()).collect();
        let single = len == 1 && o[4] == 0;
        if single && (o[0] == 1 || o[1] != 0) {
            return; // no pipeline level without proj=pipeline
        }
        if (len > 1 && o[4] == 1) || !keep(&o) {
            return; // (several steps are always an explicit pipeline: the option would only duplicate programs)
        }
        // (a ONE-step pipeline with omit_* is judged too: the step is left out in that direction,
        // whether the translation is written `cart omit_fwd` or `| cart omit_fwd`)
        let p = PProg { steps, pipeline_inv: o[0] == 1, globals: o[1], plus: o[2] as u8, layout: o[3] as u8, explicit_pipeline: len > 1 || o[4] == 1, mod_first: o[5] == 1 };
        rep.eval(1);
        rep.state(1);
        rep.transition(len as u64);
        rep.trace(1);
        match check(&p).map_err(|first| minimise(&p, first)) {
            Ok(h) => {
                outcomes.lock().unwrap().insert(h);
                if i % (total / 3 + 1) == 0 {
                    rep.sample(json!({"space": label, "proj": render_proj(&p), "counterpart": render_geodesy(&p), "pipeline_inv": p.pipeline_inv}));
                }
            }
            Err((clause, detail)) => {
                if clause.starts_with("machinery") {
                    rep.machinery_error(format!("{clause}: {detail}"));
                } else {
                    let mut d = detail;
                    d["kind"] = json!("proj");
                    rep.violation(&clause, d);
                }
            }
        }
    });
    let o = outcomes.into_inner().unwrap();
    rep.nontrivial_bulk(&o);
    rep.outcomes_bulk(&o);
    rep.add_to("program_spaces", json!({"label": label, "step_variants": a, "length": len, "options": nopt, "programs": total}));
}

fn refusals_and_passthrough(rep: &Report) {
    // init clauses and nested pipelines are refused
    for text in [
        "+init=epsg:25832",
        "init=epsg:25832",
        "+proj=pipeline +step +init=epsg:4326 +step +proj=utm +zone=32",
        "proj=pipeline step proj=utm zone=32 step init=foo:bar",
        "+proj=pipeline +step +proj=pipeline +step +proj=utm +zone=32",
        "proj=pipeline step proj=utm zone=32 step proj=pipeline step proj=noop",
        // an init clause anywhere in a step
        "proj=utm zone=32 init=epsg:25832",
        "+proj=utm +zone=32 +init=epsg:25832",
        "proj=pipeline step proj=utm zone=32 init=epsg:25832",
        "proj=pipeline init=epsg:4326 step proj=utm zone=32",
    ] {
        rep.eval(1);
        let mut plain = Plain::default();
        match catch(|| plain.op(text).is_err()) {
            Ok(true) => {}
            Ok(false) => rep.violation(
                &format!("init clause or nested pipeline accepted / {}", if text.contains("init") { "init" } else { "nested" }),
                json!({"kind": "refusal", "text": text, "translated": parse_proj(text).ok()}),
            ),
            Err(p) => rep.violation(&format!("panic: {}", panic_class(&p)), json!({"kind": "refusal", "text": text, "panic": p})),
        }
    }
    // the position of proj= in its step is free, and must not reorder the other parameters (the last of repeated keys wins)
    for (proj, geo) in [
        ("x=100 x=200 proj=helmert", "helmert x=100 x=200"),
        ("x=100 proj=helmert x=200", "helmert x=100 x=200"),
        ("x=100 y=5 x=200 z=1 proj=helmert", "helmert x=100 y=5 x=200 z=1"),
        ("proj=pipeline step x=1 y=2 x=3 proj=helmert step proj=noop", "helmert x=1 y=2 x=3 | noop"),
        ("+proj=pipeline +step +zone=33 +zone=32 +proj=utm +step +order=2,1 +proj=axisswap", "utm zone=33 zone=32 | axisswap order=2,1"),
    ] {
        rep.eval(1);
        let (a, b) = (fp_of(&mut Plain::default(), proj), fp_of(&mut Minimal::default(), geo));
        if a != b || a.is_err() {
            rep.violation("PROJ string behaves differently from its Geodesy counterpart / proj= not first in its step, repeated key", json!({"kind": "proj", "proj": proj, "counterpart": geo, "translated": parse_proj(proj).ok()}));
        }
    }
    // non-PROJ text: literally unchanged when it does not contain "proj", behaviourally otherwise
    let texts = [
        "utm zone=32",
        "addone | addone inv",
        "geo:in | utm zone=32 | neu:out",
        "helmert x=3 > addone < axisswap order=2,1",
        "cart ellps=intl\n| helmert x=3\n: y=5\n| cart inv",
        "tmerc lat_0=3 lon₀=9 k_0=0.9996",
        "  addone  ",
        "helmert x=3 # reprojection comment",
        "helmert x=3 # proj=utm zone=32",
        "addone inv # project",
        "m:reproj x=4",
        "m:reproj inv x=4",
        "unitconvert xy_in=deg xy_out=rad # proj",
        // Geodesy text is not PROJ text just because the letters "proj" occur in it: macro names, argument values,
        // pipelines written with the < > sugar only
        "my:proj a=1 rf=2 k=3",
        "my:other a=1 rf=2 k=3 note=proj",
        "my:other a=1 rf=2 k=3 note=reproject",
        "inv addone > m:reproj",
        "addone < m:reproj inv x=4",
        "helmert x=3 > m:reproj",
    ];
    for text in texts {
        rep.eval(1);
        let t = parse_proj(text);
        if !text.contains("proj") {
            if t.as_deref().ok() != Some(text) {
                rep.violation("non-PROJ text is not passed through unchanged", json!({"kind": "passthrough", "text": text, "translated": format!("{t:?}")}));
            }
        }
        let mut plain = Plain::new();
        let mut minimal = Minimal::new();
        plain.register_resource("m:reproj", "helmert x=(1) y=2");
        minimal.register_resource("m:reproj", "helmert x=(1) y=2");
        for n in ["my:proj", "my:other"] {
            plain.register_resource(n, "helmert x=$a y=$rf z=$k");
            minimal.register_resource(n, "helmert x=$a y=$rf z=$k");
        }
        let a = fp_of(&mut plain, text);
        let b = fp_of(&mut minimal, text);
        if a != b || a.is_err() {
            rep.violation(
                &format!("Geodesy text containing 'proj' changes meaning in Plain / {}", if text.contains('#') { "in a comment" } else { "in a name" }),
                json!({"kind": "passthrough", "text": text, "translated": format!("{t:?}"), "plain": format!("{a:?}").chars().take(120).collect::<String>(), "minimal": format!("{b:?}").chars().take(120).collect::<String>()}),
            );
        }
    }
}

pub fn run(tier: Tier) -> Report {
    let rep = Report::new("C17", tier, "model_checking");
    rep.rule("every PROJ pipeline of 1..L steps over (operator kind x {none, inv, omit_fwd, omit_inv, inv + omit_fwd, inv + omit_inv}) x (pipeline inv, globals, + style, layout, explicit proj=pipeline, \
              modifier position): complete product; each compared (fingerprint in both directions) with the harness's independent Geodesy rendering of the non-inverted \
              pipeline (directions exchanged for pipeline-level inv). Non-trivial/distinct = distinct fingerprint");
    rep.assume("the shared operators mean the same in both syntaxes (only the translation is judged); the reference rendering puts globals before step-local values (last wins)");
    let wd = enter_private_workdir();
    let all: Vec<usize> = (0..KINDS.len()).collect();
    let plain_if_omit_global = |o: &[usize]| o[1] != 5 || (o[2] == 0 && o[3] == 0 && o[5] == 0);
    let every = |o: &[usize]| o[3] < 6 && plain_if_omit_global(o);
    enumerate(&rep, &all, 1, "all^1", &every);
    match tier {
        Tier::Quick => {
            // o = [pipeline inv, globals, plus style, layout, explicit, modifier first]
            enumerate(&rep, &all, 2, "all^2 (layouts 0,2,3,5; no pipeline-level parameters with layout 4; modifier-first only with layouts 0 and 4; mixed + style only with layouts 0 and 3)", &|o: &[usize]| {
                o[3] < 6 && o[3] != 1 && (o[3] != 4 || o[1] == 0) && (o[5] == 0 || o[3] == 0 || o[3] == 4) && (o[2] != 2 || o[3] == 0 || o[3] == 3) && plain_if_omit_global(o)
            });
            enumerate(&rep, &[1, 4], 3, "two^3 (no plus signs, layouts 0,3)", &|o: &[usize]| o[2] == 0 && (o[3] == 0 || o[3] == 3) && plain_if_omit_global(o));
        }
        Tier::Thorough => {
            enumerate(&rep, &all, 2, "all^2", &every);
            enumerate(&rep, &[0, 1, 2, 4, 5, 11], 3, "six^3", &|o: &[usize]| o[3] < 6 && o[3] != 1 && plain_if_omit_global(o));
            enumerate(&rep, &[1, 4], 4, "two^4", &|o: &[usize]| o[3] < 6 && o[2] != 2 && plain_if_omit_global(o));
        }
    }
    enumerate(&rep, &[0, 1, 4], 2, "three^2 (form feed, vertical tab, no-break space, em space between the tokens, comments with lone CR line ends; no pipeline-level parameters)", &|o: &[usize]| o[3] >= 6 && o[1] == 0 && o[4] == 0);
    refusals_and_passthrough(&rep);
    leave_private_workdir(&wd);
    rep
}

pub fn replay(case: &Value) -> Result<String, String> {
    let wd = enter_private_workdir();
    let r = match case["kind"].as_str() {
        Some("proj") => {
            let proj = case["proj"].as_str().unwrap_or("");
            let geo = case["counterpart"].as_str().unwrap_or("");
            let inv = case["pipeline_inv"].as_bool().unwrap_or(false);
            let a = fp_of(&mut Plain::default(), proj);
            let b = fp_of(&mut Minimal::default(), geo).map(|f| if inv { swap_dirs(&f) } else { f });
            if a.is_ok() && a == b {
                Ok(format!("{proj:?} == {geo:?}"))
            } else {
                Err(format!("{proj:?} translated to {:?} differs from {geo:?}{}", parse_proj(proj), if inv { " (inverted)" } else { "" }))
            }
        }
        _ => Err(format!("recorded: {case}")),
    };
    leave_private_workdir(&wd);
    r
}
