//! C10 — failures are visible: honest counts, NaN for failed tuples, untouched axes kept.
//! Complete product: operator table x supported directions x tuple classes {inside, edge, far
//! outside} x all 16 NaN masks x grid operators with/without @null x pipelines with failing steps.

use crate::engine::*;
use crate::geo::*;
use geodesy::authoring::*;
use serde_json::json;
use std::collections::HashSet;
use std::sync::Mutex;

type C4 = [f64; 4];

#[derive(Clone)]
struct Entry {
    def: &'static str,
    /// elements the operator works on (written), as a bit mask over 0..3
    writes: u8,
    /// for each input element, which output elements depend on it (bit masks); index = input element
    deps: [u8; 4],
    /// the same for the inverse direction (None = same matrix)
    deps_inv: Option<[u8; 4]>,
    inside: Vec<C4>,
    /// tuples that cannot be transformed in the forward direction
    outside_fwd: Vec<C4>,
    /// tuples (in output space) that cannot be transformed in the inverse direction
    outside_inv: Vec<C4>,
    invertible: bool,
}

fn geo(lon: f64, lat: f64, h: f64, t: f64) -> C4 {
    [lon.to_radians(), lat.to_radians(), h, t]
}

fn table() -> Vec<Entry> {
    let inside_geo = vec![geo(12., 55., 100., 2020.5), geo(9., 1e-9, 0., 1999.), geo(10.5, -33.25, -20., 2001.25)];
    let cov = vec![geo(12., 55., 100., 2020.5), geo(9.5, 56.25, 0., 2010.), geo(14.75, 54.5, 30., 2001.)];
    let outside_cov = vec![geo(30., 30., 0., 2020.), geo(12., 60., 0., 2020.), geo(-170., -80., 10., 2000.), geo(7., 55., 0., 2000.)];
    let g = ref_ellipsoid("GRS80").unwrap();
    let cart = |t: &C4| {
        let c = g.geo_to_cart(t[0], t[1], t[2]);
        [c[0], c[1], c[2], t[3]]
    };
    let xy: u8 = 0b0011;
    let xyz: u8 = 0b0111;
    // plane projections: both outputs depend on both horizontal inputs (merc: separately)
    let pl = [xy, xy, 0, 0];
    let plane = |def: &'static str, inside: Vec<C4>, of: Vec<C4>, oi: Vec<C4>| Entry { def, writes: xy, deps: pl, deps_inv: None, inside, outside_fwd: of, outside_inv: oi, invertible: true };
    vec![
        plane("utm zone=32", inside_geo.clone(), vec![geo(9. + 89.95, 0.01, 0., 0.), geo(9. - 89.99, -0.02, 5., 1.)], vec![[5e7, 1000., 0., 0.], [-4e7, 1e6, 2., 3.]]),
        plane("tmerc lat_0=3 lon_0=9 k_0=0.9996 x_0=500000 y_0=100", inside_geo.clone(), vec![geo(9. + 89.95, 0.005, 0., 0.)], vec![[6e7, 0., 0., 0.]]),
        plane("laea lat_0=52 lon_0=10 x_0=4321000 y_0=3210000", inside_geo.clone(), vec![], vec![[4321000. + 2e7, 3210000., 1., 2.], [4321000., 3210000. - 1.4e7, 0., 0.]]),
        // (the laea disc has the radius 2 Rq, about 12 742 km: beyond it no point of the ellipsoid maps)
        plane("laea lat_0=90 lon_0=10", vec![geo(12., 55., 100., 2020.5), geo(-100., 80., 0., 2000.)], vec![], vec![[2e7, 0., 1., 2.], [0., -1.4e7, 0., 0.], [9.1e6, 9.1e6, 0., 0.]]),
        plane("laea lat_0=-90 lon_0=10 x_0=1000 y_0=2000", vec![geo(12., -55., 100., 2020.5), geo(-100., -80., 0., 2000.)], vec![], vec![[2e7, 0., 1., 2.], [0., -1.4e7, 0., 0.], [-9.1e6, 9.1e6, 0., 0.]]),
        plane("laea lat_0=0 lon_0=-70", inside_geo.clone(), vec![], vec![[2e7, 0., 1., 2.], [0., -1.4e7, 0., 0.], [-9.1e6, 9.1e6, 0., 0.]]),
        plane("lcc lat_1=33 lat_2=45 lon_0=10 lat_0=40", inside_geo.clone(), vec![], vec![]),
        Entry { def: "merc lat_ts=56", writes: xy, deps: [0b01, 0b10, 0, 0], deps_inv: None, inside: inside_geo.clone(), outside_fwd: vec![], outside_inv: vec![], invertible: true },
        Entry { def: "webmerc", writes: xy, deps: [0b01, 0b10, 0, 0], deps_inv: None, inside: inside_geo.clone(), outside_fwd: vec![], outside_inv: vec![], invertible: true },
        plane("btmerc lon_0=9", inside_geo.clone(), vec![], vec![]),
        plane("omerc lonc=12 latc=55 alpha=30 gamma_c=30 k_0=0.9999", vec![geo(12., 55., 100., 2020.5), geo(13., 54., 0., 2000.), geo(12., 90., 0., 2000.), geo(-40., -90., 0., 2000.)], vec![], vec![]),
        plane("somerc lat_0=46.9524055555556 lon_0=7.43958333333333 k_0=1 x_0=2600000 y_0=1200000", vec![geo(8., 47., 400., 2020.5), geo(6.5, 46.1, 0., 2000.)], vec![], vec![]),
        Entry { def: "cart", writes: xyz, deps: [0b011, 0b111, 0b111, 0], deps_inv: Some([0b111, 0b111, 0b110, 0]), inside: inside_geo.clone(), outside_fwd: vec![], outside_inv: vec![], invertible: true },
        // (with a point on the polar axis, where the conversion takes a branch of its own)
        Entry { def: "cart inv", writes: xyz, deps: [0b111, 0b111, 0b110, 0], deps_inv: Some([0b011, 0b111, 0b111, 0]), inside: inside_geo.iter().map(cart).chain([[0., 0., 6356852.3, 2020.5], [0., 0., -6356752.3, 2000.]]).collect(), outside_fwd: vec![], outside_inv: vec![], invertible: true },
        Entry { def: "helmert x=-87 y=-96 z=-120", writes: xyz, deps: [0b001, 0b010, 0b100, 0], deps_inv: None, inside: inside_geo.iter().map(cart).collect(), outside_fwd: vec![], outside_inv: vec![], invertible: true },
        Entry { def: "helmert x=1 rx=1 ry=2 rz=3 s=1 convention=position_vector", writes: xyz, deps: [0b111, 0b111, 0b111, 0], deps_inv: None, inside: inside_geo.iter().map(cart).collect(), outside_fwd: vec![], outside_inv: vec![], invertible: true },
        Entry { def: "helmert x=1 dx=0.01 dy=0.02 dz=0.03 t_epoch=2000", writes: xyz, deps: [0b001, 0b010, 0b100, 0b111], deps_inv: None, inside: inside_geo.iter().map(cart).collect(), outside_fwd: vec![], outside_inv: vec![], invertible: true },
        Entry { def: "molodensky ellps_0=intl ellps_1=GRS80 dx=-87 dy=-96 dz=-120", writes: xyz, deps: [0b111, 0b111, 0b111, 0], deps_inv: None, inside: inside_geo.clone(), outside_fwd: vec![], outside_inv: vec![], invertible: true },
        Entry { def: "latitude geocentric", writes: 0b0010, deps: [0, 0b10, 0, 0], deps_inv: None, inside: inside_geo.clone(), outside_fwd: vec![], outside_inv: vec![], invertible: true },
        Entry { def: "permtide from=mean to=zero", writes: 0b0100, deps: [0, 0b100, 0b100, 0], deps_inv: None, inside: inside_geo.clone(), outside_fwd: vec![], outside_inv: vec![], invertible: true },
        Entry { def: "addone", writes: 0b0001, deps: [0b1, 0, 0, 0], deps_inv: None, inside: vec![[1., 2., 3., 4.], [-5.5, 0., 1e9, f64::MAX]], outside_fwd: vec![], outside_inv: vec![], invertible: true },
        Entry { def: "unitconvert xy_in=deg xy_out=rad z_in=ft", writes: xyz, deps: [0b1, 0b10, 0b100, 0], deps_inv: None, inside: vec![[1., 2., 3., 4.], [-5.5, 0., 1e9, 2000.]], outside_fwd: vec![], outside_inv: vec![], invertible: true },
        // grids (coverage lat 54..58, lon 8..16)
        Entry { def: "gridshift grids=test.datum", writes: xy, deps: [xy, xy, 0, 0], deps_inv: None, inside: cov.clone(), outside_fwd: outside_cov.clone(), outside_inv: outside_cov.clone(), invertible: true },
        Entry { def: "gridshift grids=test.geoid", writes: 0b0100, deps: [0b100, 0b100, 0b100, 0], deps_inv: None, inside: cov.clone(), outside_fwd: outside_cov.clone(), outside_inv: outside_cov.clone(), invertible: true },
        Entry { def: "gridshift grids=@missing.datum, test_subset.datum, test.datum", writes: xy, deps: [xy, xy, 0, 0], deps_inv: None, inside: cov.clone(), outside_fwd: outside_cov.clone(), outside_inv: outside_cov.clone(), invertible: true },
        Entry { def: "gridshift grids=5458.gsb", writes: xy, deps: [xy, xy, 0, 0], deps_inv: None, inside: vec![geo(12., 55., 0., 2000.), geo(9.5, 56.25, 10., 2001.)], outside_fwd: vec![geo(30., 30., 0., 2020.)], outside_inv: vec![geo(30., 30., 0., 2020.)], invertible: true },
        Entry { def: "deformation grids=test.deformation t_epoch=2000", writes: xyz, deps: [xyz, xyz, xyz, xyz], deps_inv: None, inside: cov.iter().map(cart).collect(), outside_fwd: outside_cov.iter().map(cart).collect(), outside_inv: outside_cov.iter().map(cart).collect(), invertible: true },
        // the null grid passes points outside the grids unchanged - but it cannot tell where a NaN position is
        Entry { def: "gridshift grids=test.datum, @null", writes: xy, deps: [xy, xy, 0, 0], deps_inv: None, inside: cov.clone(), outside_fwd: vec![], outside_inv: vec![], invertible: true },
        Entry { def: "gridshift grids=test.geoid, @null", writes: 0b0100, deps: [0b100, 0b100, 0b100, 0], deps_inv: None, inside: cov.clone(), outside_fwd: vec![], outside_inv: vec![], invertible: true },
        Entry { def: "deformation grids=test.deformation, @null t_epoch=2000", writes: xyz, deps: [xyz, xyz, xyz, xyz], deps_inv: None, inside: cov.iter().map(cart).collect(), outside_fwd: vec![], outside_inv: vec![], invertible: true },
        Entry { def: "deflection grids=test.geoid, @null", writes: xy, deps: [xy, xy, 0, 0], deps_inv: None, inside: vec![[55., 12., 0., 0.], [56.25, 9.5, 0., 1.]], outside_fwd: vec![], outside_inv: vec![], invertible: false },
        Entry { def: "deflection grids=test.geoid", writes: xy, deps: [xy, xy, 0, 0], deps_inv: None, inside: vec![[55., 12., 0., 0.], [56.25, 9.5, 0., 1.]], outside_fwd: vec![[30., 30., 0., 0.], [60., 12., 0., 0.]], outside_inv: vec![], invertible: false },
        // geodesics: forward (lat, lon, azimuth, distance) -> (lat2, lon2, lat1, lon1); inverse (lat1, lon1, lat2, lon2) ->
        // (azi1, azi2, distance, return azimuth), or in the reversible mode (lat2, lon2, return azimuth, distance).
        // A nearly antipodal pair does not converge: NaN and not counted, in both modes
        Entry { def: "geodesic", writes: 0b1111, deps: [0b0111, 0b1010, 0b0011, 0b0011], deps_inv: Some([0b1111; 4]), inside: vec![[55., 12., 45., 100000.], [-33., 100., 270., 2e6], [0., 0., 90., 1e6]],
                outside_fwd: vec![], outside_inv: vec![[0., 0., 0.5, 179.7], [10., -60., -10.2, 119.9]], invertible: true },
        Entry { def: "geodesic reversible", writes: 0b1111, deps: [0b0111, 0b1010, 0b0011, 0b0011], deps_inv: Some([0b1100, 0b1100, 0b1101, 0b1110]), inside: vec![[55., 12., 45., 100000.], [-33., 100., 270., 2e6], [0., 0., 90., 1e6]],
                outside_fwd: vec![], outside_inv: vec![[0., 0., 0.5, 179.7], [10., -60., -10.2, 119.9]], invertible: true },
        // one-way operators
        Entry { def: "curvature prime", writes: 0b0001, deps: [0b1, 0, 0, 0], deps_inv: None, inside: vec![[55., 12., 0., 0.], [-33., 100., 5., 6.]], outside_fwd: vec![], outside_inv: vec![], invertible: false },
        // ... and pipelines containing one: zero and data untouched in the inverse direction
        Entry { def: "addone | curvature prime", writes: 0b0001, deps: [0b1, 0, 0, 0], deps_inv: None, inside: vec![[55., 12., 0., 0.], [-33., 100., 5., 6.]], outside_fwd: vec![], outside_inv: vec![], invertible: false },
        Entry { def: "gravity grs80 | addone | addone inv", writes: 0b0001, deps: [0b1, 0b1, 0, 0], deps_inv: None, inside: vec![[55., 100., 0., 0.], [-33., 0., 5., 6.]], outside_fwd: vec![], outside_inv: vec![], invertible: false },
        Entry { def: "gravity grs80", writes: 0b0001, deps: [0b1, 0b1, 0, 0], deps_inv: None, inside: vec![[55., 100., 0., 0.], [-33., 0., 5., 6.]], outside_fwd: vec![], outside_inv: vec![], invertible: false },
    ]
}

fn apply_one(ctx: &Plain, op: OpHandle, dir: &Direction, t: C4) -> Result<(usize, C4), String> {
    let mut d = [Coor4D(t)];
    let dd = if *dir == Fwd { Fwd } else { Inv };
    match catch(|| ctx.apply(op, dd, &mut d)) {
        Ok(Ok(n)) => Ok((n, d[0].0)),
        Ok(Err(e)) => Err(e.to_string()),
        Err(p) => Err(format!("PANIC {p}")),
    }
}

fn check_entry(rep: &Report, e: &Entry, outcomes: &Mutex<HashSet<u64>>) {
    let mut ctx = Plain::new();
    let op = match catch(|| ctx.op(e.def)) {
        Ok(Ok(op)) => op,
        other => {
            rep.machinery_error(format!("C10 table entry does not instantiate: {} {other:?}", e.def));
            return;
        }
    };
    let opname = e.def.split(' ').next().unwrap_or("");
    let written = |k: usize| e.writes & (1 << k) != 0;
    for dir in [Fwd, Inv] {
        let dn = if dir == Fwd { "fwd" } else { "inv" };
        if dir == Inv && !e.invertible {
            // the unsupported inverse of a one-way operator reports zero and leaves the data untouched
            for t in &e.inside {
                rep.eval(1);
                match apply_one(&ctx, op, &dir, *t) {
                    Ok((0, out)) if bits4(out) == bits4(*t) => {}
                    other => rep.violation(&format!("inverse of a one-way operator does not report zero and leave the data untouched / {opname}"), json!({"def": e.def, "input": t, "result": format!("{other:?}")})),
                }
            }
            continue;
        }
        // inside tuples: in the inverse direction these are the forward images
        let inside: Vec<C4> = if dir == Fwd {
            e.inside.clone()
        } else {
            e.inside.iter().filter_map(|t| apply_one(&ctx, op, &Fwd, *t).ok().map(|r| r.1)).collect()
        };
        let mut seen = HashSet::new();
        for t in &inside {
            // --- all-finite tuple inside the domain: transformed and counted, untouched elements kept
            rep.eval(1);
            let base = match apply_one(&ctx, op, &dir, *t) {
                Ok(r) => r,
                Err(er) => {
                    rep.violation(&format!("apply fails or panics / {opname} [{dn}]"), json!({"def": e.def, "input": t, "error": er}));
                    continue;
                }
            };
            if base.0 != 1 || (0..4).any(|k| written(k) && !base.1[k].is_finite()) {
                rep.violation(&format!("a tuple inside the domain is not transformed and counted / {opname} [{dn}]"), json!({"def": e.def, "input": t, "count": base.0, "output": format!("{:?}", base.1)}));
                continue;
            }
            if (0..4).any(|k| !written(k) && bits(base.1[k]) != bits(t[k])) {
                rep.violation(&format!("an element the operator does not work on is not returned bit-identical / {opname} [{dn}]"), json!({"def": e.def, "input": t, "output": format!("{:?}", base.1)}));
            }
            seen.insert(hash_of(&bits4(base.1)));
            // --- the same tuple through containers that do not store the dimensions the operator does not use
            // (time for a 3D conversion, height and time for a plane one): still transformed and counted
            let dmat = if dir == Fwd { e.deps } else { e.deps_inv.unwrap_or(e.deps) };
            if dmat[3] == 0 && e.writes & 0b1000 == 0 {
                let mut d3 = vec![Coor3D([t[0], t[1], t[2]])];
                rep.eval(1);
                let r = catch(|| ctx.apply(op, if dir == Fwd { Fwd } else { Inv }, &mut d3));
                let ok = matches!(r, Ok(Ok(1))) && (0..3).all(|k| bits(d3[0].0[k]) == bits(base.1[k]));
                if !ok {
                    rep.violation(&format!("a tuple inside the domain is not transformed and counted when presented in a 3D container / {opname} [{dn}]"), json!({"def": e.def, "input": t, "result": format!("{r:?}"), "output": format!("{:?}", d3[0].0), "expected": format!("{:?}", &base.1[..3])}));
                }
                if dmat[2] == 0 && e.writes & 0b1100 == 0 {
                    let mut d2 = vec![Coor2D([t[0], t[1]])];
                    rep.eval(1);
                    let r = catch(|| ctx.apply(op, if dir == Fwd { Fwd } else { Inv }, &mut d2));
                    let ok = matches!(r, Ok(Ok(1))) && (0..2).all(|k| bits(d2[0].0[k]) == bits(base.1[k]));
                    if !ok {
                        rep.violation(&format!("a tuple inside the domain is not transformed and counted when presented in a 2D container / {opname} [{dn}]"), json!({"def": e.def, "input": t, "result": format!("{r:?}"), "output": format!("{:?}", d2[0].0), "expected": format!("{:?}", &base.1[..2])}));
                    }
                }
            }
            // --- all 16 NaN masks
            for mask in 1u8..16 {
                let mut x = *t;
                for k in 0..4 {
                    if mask & (1 << k) != 0 {
                        x[k] = f64::NAN;
                    }
                }
                rep.eval(1);
                let r = match apply_one(&ctx, op, &dir, x) {
                    Ok(r) => r,
                    Err(er) => {
                        rep.violation(&format!("apply fails or panics on NaN input / {opname} [{dn}]"), json!({"def": e.def, "input": format!("{x:?}"), "error": er}));
                        continue;
                    }
                };
                if r.0 > 1 {
                    rep.violation(&format!("more successes than tuples / {opname} [{dn}]"), json!({"def": e.def, "count": r.0}));
                }
                // dependency matrix (forward); for the inverse the transposed relation is used
                let mut must_be_nan = 0u8;
                for i in 0..4 {
                    if mask & (1 << i) != 0 {
                        must_be_nan |= if dir == Fwd { e.deps[i] } else { e.deps_inv.unwrap_or(e.deps)[i] };
                        if !written(i) {
                            must_be_nan |= 1 << i; // an untouched NaN element stays NaN
                        }
                    }
                }
                for k in 0..4 {
                    let is_nan = r.1[k].is_nan();
                    if must_be_nan & (1 << k) != 0 && !is_nan {
                        rep.violation(
                            &format!("a NaN input element does not produce NaN in an output element that depends on it / {opname} [{dn}]"),
                            json!({"def": e.def, "input": format!("{x:?}"), "output": format!("{:?}", r.1), "nan_mask": mask, "element": k}),
                        );
                        break;
                    }
                    // an output that depends on no NaN input and is not written must be the input bit for bit
                    if !written(k) && mask & (1 << k) == 0 && r.0 == 1 && bits(r.1[k]) != bits(x[k]) {
                        rep.violation(
                            &format!("an element the operator does not work on is not returned bit-identical / {opname} [{dn}]"),
                            json!({"def": e.def, "input": format!("{x:?}"), "output": format!("{:?}", r.1), "nan_mask": mask, "element": k}),
                        );
                        break;
                    }
                }
                // (an uncounted NaN-input tuple trivially "carries NaN"; whether a tuple whose only NaN sits in an
                // element the operator does not work on is counted is not specified and not judged)
            }
        }
        // --- tuples that cannot be transformed: NaN and not counted, never unchanged or partly transformed
        let outside = if dir == Fwd { &e.outside_fwd } else { &e.outside_inv };
        for t in outside {
            rep.eval(1);
            match apply_one(&ctx, op, &dir, *t) {
                Ok((n, out)) => {
                    let all_nan = (0..4).all(|k| !written(k) || out[k].is_nan());
                    if n != 0 || !all_nan {
                        let how = if bits4(out) == bits4(*t) { "returned unchanged" } else if n != 0 { "counted as a success" } else { "partly transformed" };
                        rep.violation(
                            &format!("a tuple that cannot be transformed is {how} instead of NaN and uncounted / {opname} [{dn}]"),
                            json!({"def": e.def, "input": t, "count": n, "output": format!("{out:?}")}),
                        );
                    }
                    seen.insert(hash_of(&bits4(out)));
                }
                Err(er) => rep.violation(&format!("apply fails or panics outside the domain / {opname} [{dn}]"), json!({"def": e.def, "input": t, "error": er})),
            }
        }
        // --- whole set: count <= len and equals the number of singles that succeeded
        let mut set: Vec<Coor4D> = inside.iter().chain(outside.iter()).map(|t| Coor4D(*t)).collect();
        let singles: usize = inside.iter().chain(outside.iter()).filter_map(|t| apply_one(&ctx, op, &dir, *t).ok()).map(|r| r.0).sum();
        let dd = if dir == Fwd { Fwd } else { Inv };
        if let Ok(Ok(n)) = catch(|| ctx.apply(op, dd, &mut set)) {
            rep.eval(1);
            if n > set.len() || n != singles {
                rep.violation(&format!("set count is not the number of transformed tuples / {opname} [{dn}]"), json!({"def": e.def, "count": n, "set_size": set.len(), "sum_of_singles": singles}));
            }
        }
        outcomes.lock().unwrap().extend(seen);
    }
}

fn null_grid_and_pipelines(rep: &Report) {
    let mut ctx = Plain::new();
    let inside = geo(12., 55., 100., 2020.5);
    let outside = geo(30., 30., 7., 2001.);
    // a definition that leaves out what the operator cannot do without is refused - or, if it is accepted, every tuple
    // is failed honestly (NaN and not counted); never NaN results that are counted as successes
    for def in ["omerc lonc=12 latc=55", "omerc", "omerc lonc=12 latc=55 gamma_c=30"] {
        let Ok(op) = ctx.op(def) else { continue };
        for dir in [Fwd, Inv] {
            let dn = if dir == Fwd { "fwd" } else { "inv" };
            rep.eval(1);
            let mut d = [Coor4D(inside), Coor4D(geo(13., 54., 0., 2000.))];
            if dir == Inv {
                d = [Coor4D([100000., 6100000., 0., 2000.]), Coor4D([0., 0., 0., 2000.])];
            }
            let n = ctx.apply(op, dir, &mut d).unwrap_or(usize::MAX);
            let nans = d.iter().filter(|c| c[0].is_nan() || c[1].is_nan()).count();
            if n + nans > d.len() {
                rep.violation("an under-specified definition is accepted, and its NaN results are counted as successes", json!({"def": def, "direction": dn, "count": n, "result": format!("{d:?}")}));
            }
        }
    }
    // with @null a point outside all grids passes unchanged and is counted
    for def in ["gridshift grids=test.datum, @null", "gridshift grids=@null", "gridshift grids=@missing.gsb, @null", "gridshift grids=test.geoid, @null", "deformation grids=test.deformation, @null t_epoch=2000", "deformation grids=@null dt=1"] {
        let Ok(op) = ctx.op(def) else {
            rep.violation("grid operator with @null is rejected", json!({"def": def}));
            continue;
        };
        for dir in [Fwd, Inv] {
            let dn = if dir == Fwd { "fwd" } else { "inv" };
            rep.eval(1);
            let t = if def.starts_with("deformation") {
                let g = ref_ellipsoid("GRS80").unwrap().geo_to_cart(outside[0], outside[1], outside[2]);
                [g[0], g[1], g[2], outside[3]]
            } else {
                outside
            };
            match apply_one(&ctx, op, &dir, t) {
                Ok((1, out)) if bits4(out) == bits4(t) => {}
                other => rep.violation(&format!("with the null grid a point outside all grids does not pass unchanged and counted / {} [{dn}]", def.split(' ').next().unwrap()), json!({"def": def, "input": t, "result": format!("{other:?}")})),
            }
            // ... but the null grid cannot tell where a NaN is: such a tuple is failed, whatever else the list holds
            // (also when the null grid is all there is)
            let mut nowhere = t;
            nowhere[0] = f64::NAN;
            match apply_one(&ctx, op, &dir, nowhere) {
                Ok((0, out)) if out[0].is_nan() && out[1].is_nan() => {}
                other => rep.violation(&format!("with the null grid a tuple at a NaN position is not failed (NaN, not counted) / {} [{dn}]", def.split(' ').next().unwrap()), json!({"def": def, "input": format!("{nowhere:?}"), "result": format!("{other:?}")})),
            }
        }
    }
    // the strip along the outer edge of the half-cell margin (coverage 54..58 N, 8..16 E, margin 0.5 degrees): the
    // forward look-up succeeds or fails there, and an inverse iterate may step off the grids. Whatever the verdict
    // for a tuple is, it is the same after a tuple that succeeded and after one that failed, it is honest (counted
    // means no NaN, not counted means NaN), and a counted tuple is the fully transformed one (equal to the tuple alone)
    for def in ["gridshift grids=test.datum", "gridshift grids=test.geoid", "gridshift grids=test_subset.datum, test.datum", "deformation grids=test.deformation dt=1"] {
        let Ok(op) = ctx.op(def) else {
            rep.violation("grid operator is rejected", json!({"def": def}));
            continue;
        };
        let is_def = def.starts_with("deformation");
        let mk = |lon: f64, lat: f64| -> C4 {
            let g = geo(lon, lat, 30., 2010.);
            if is_def {
                let c = ref_ellipsoid("GRS80").unwrap().geo_to_cart(g[0], g[1], g[2]);
                [c[0], c[1], c[2], g[3]]
            } else {
                g
            }
        };
        let offs = [-0.02, -0.012, -0.005, -0.001, 0., 0.001, 0.005, 0.012, 0.02];
        let mut strip: Vec<C4> = Vec::new();
        for o in offs {
            for along in [9.3, 12., 15.9] {
                strip.push(mk(along, 53.5 + o));
                strip.push(mk(along, 58.5 + o));
            }
            for along in [54.2, 55.5, 57.9] {
                strip.push(mk(7.5 + o, along));
                strip.push(mk(16.5 + o, along));
            }
        }
        let good = mk(12., 55.);
        let bad = mk(30., 30.);
        for dir in [Fwd, Inv] {
            let dn = if dir == Fwd { "fwd" } else { "inv" };
            for t in &strip {
                rep.eval(3);
                let alone = apply_one(&ctx, op, &dir, *t);
                let Ok((n1, out1)) = alone else {
                    rep.violation(&format!("grid operator panics or errs next to the edge of its coverage / {} [{dn}]", def.split(' ').next().unwrap()), json!({"def": def, "input": t, "result": format!("{alone:?}")}));
                    continue;
                };
                let honest = |n: usize, o: &C4| (n == 1 && !o.iter().take(3).any(|v| v.is_nan())) || (n == 0 && o[0].is_nan() && o[1].is_nan());
                if !honest(n1, &out1) {
                    rep.violation(&format!("a tuple next to the edge of the coverage is counted though NaN, or failed though not NaN / {} [{dn}]", def.split(' ').next().unwrap()), json!({"def": def, "input": t, "count": n1, "result": format!("{out1:?}")}));
                    continue;
                }
                for (what, first) in [("a tuple that succeeded", good), ("a tuple that failed", bad)] {
                    let mut d = [Coor4D(first), Coor4D(*t)];
                    let mut f = [Coor4D(first)];
                    let again = || if dn == "fwd" { Fwd } else { Inv };
                    let nf = ctx.apply(op, again(), &mut f).unwrap_or(usize::MAX);
                    let n = ctx.apply(op, again(), &mut d).unwrap_or(usize::MAX);
                    if n != nf + n1 || bits4(d[1].0) != bits4(out1) {
                        rep.violation(
                            &format!("a tuple next to the edge of the coverage fares differently after {what} / {} [{dn}]", def.split(' ').next().unwrap()),
                            json!({"def": def, "input": t, "alone": {"count": n1, "result": format!("{out1:?}")}, "in_a_set_of_two": {"count": n, "count_of_the_first_alone": nf, "result": format!("{:?}", d[1].0)}}),
                        );
                        break;
                    }
                }
            }
        }
    }
    // pipelines with failing steps: the count is the minimum over the steps, failed tuples are NaN
    let cases: [(&str, [C4; 3], usize, [bool; 3]); 6] = [
        ("gridshift grids=test.datum | addone", [inside, outside, inside], 2, [false, true, false]),
        ("noop | gridshift grids=test.datum | helmert z=1", [outside, outside, inside], 1, [true, true, false]),
        ("utm zone=32 | utm zone=32 inv", [inside, geo(9. + 89.95, 0.01, 0., 0.), inside], 2, [false, true, false]),
        ("stack pop=1 | addone", [inside, inside, inside], 0, [true, true, true]),
        ("addone | stack push=1 | stack pop=1,2", [inside, inside, inside], 0, [true, true, true]),
        ("stack push=1,2 | stack roll=3,1", [inside, inside, inside], 0, [true, true, true]),
    ];
    for (def, data, want_count, nan) in cases {
        rep.eval(1);
        let Ok(op) = ctx.op(def) else {
            rep.violation("pipeline with a failing step is rejected at instantiation", json!({"def": def}));
            continue;
        };
        let mut d: Vec<Coor4D> = data.iter().map(|t| Coor4D(*t)).collect();
        match catch(|| ctx.apply(op, Fwd, &mut d)) {
            Ok(Ok(n)) => {
                let nan_ok = d.iter().zip(nan.iter()).all(|(c, want)| c.0[0].is_nan() == *want);
                if n != want_count || !nan_ok {
                    rep.violation(
                        &format!("pipeline containing a failing step: count is not the minimum over its steps or failed tuples are not NaN / {}", def.split('|').map(|s| s.split_whitespace().next().unwrap_or("")).collect::<Vec<_>>().join("|")),
                        json!({"def": def, "count": n, "expected_count": want_count, "output": d.iter().map(|c| format!("{:?}", c.0)).collect::<Vec<_>>(), "expected_nan": nan}),
                    );
                }
            }
            other => rep.violation("pipeline containing a failing step panics or errs", json!({"def": def, "result": format!("{other:?}")})),
        }
    }
}

/// Domain limits in projected space (inverse direction): the classification of a projected point as
/// transformable (counted, finite) or beyond the limit (not counted, NaN) must not depend on the false
/// origin: `P x_0=X y_0=Y` inverse at (x+X, y+Y) is classified like `P` inverse at (x, y), and where
/// both succeed the results agree. Complete product: every projection aspect x 2 ellipsoids x a
/// lattice over the whole projected plane (|x| <= 2.2e7 m, so that it crosses every strip limit).
fn domain_edges(rep: &Report, tier: Tier, outcomes: &Mutex<HashSet<u64>>) {
    let projs = crate::projs::projections();
    let (dx, dy) = (500000.0f64, -2000000.0f64);
    let step = tier.pick(100_000.0f64, 20_000.0);
    let nx = (2.2e7 / step) as i64;
    let ys = [-9.0e6, -4.0e6, -1.0e5, 0., 3.0e6, 9.5e6];
    let mut pairs: Vec<(String, String, String, f64, f64)> = Vec::new(); // (label, base, shifted, dx, dy)
    for p in &projs {
        if p.aspect.ends_with("+ offsets") || p.op == "webmerc" || p.op == "butm" {
            continue;
        }
        if p.op == "utm" {
            let south = p.def.contains("south");
            let base = format!("tmerc lon_0={} k_0=0.9996", p.lon_c);
            pairs.push((format!("utm [{}]", p.aspect), base, p.def.clone(), 500000., if south { 10000000. } else { 0. }));
            continue;
        }
        let keep: Vec<&str> = p.def.split(' ').filter(|k| !k.starts_with("x_0=") && !k.starts_with("y_0=")).collect();
        let base = keep.join(" ");
        pairs.push((format!("{} [{}]", p.op, p.aspect), base.clone(), format!("{base} x_0={dx} y_0={dy}"), dx, dy));
    }
    rep.set("domain_edge_pairs", json!(pairs.len()));
    rep.set("domain_edge_lattice", json!({"x_step_m": step, "x_max_m": 2.2e7, "y_m": ys}));
    par_range(pairs.len() * 2, |i| {
        let (label, base, shifted, dx, dy) = &pairs[i / 2];
        let ellps = ["GRS80", "intl"][i % 2];
        let mut ctx = Minimal::default();
        let (Ok(a), Ok(b)) = (ctx.op(&format!("{base} ellps={ellps}")), ctx.op(&format!("{shifted} ellps={ellps}"))) else {
            rep.violation(&format!("projection with false origin is rejected / {label}"), json!({"base": base, "shifted": shifted}));
            return;
        };
        let mut seen = HashSet::new();
        let ell = ref_ellipsoid(ellps).unwrap();
        for &y in &ys {
            let src: Vec<C4> = (-nx..=nx).map(|k| [k as f64 * step, y, 12.5, 2020.25]).collect();
            let mut da: Vec<Coor4D> = src.iter().map(|t| Coor4D(*t)).collect();
            let mut db: Vec<Coor4D> = src.iter().map(|t| Coor4D([t[0] + dx, t[1] + dy, t[2], t[3]])).collect();
            let ra = catch(|| ctx.apply(a, Inv, &mut da));
            let rb = catch(|| ctx.apply(b, Inv, &mut db));
            let (Ok(Ok(na)), Ok(Ok(nb))) = (&ra, &rb) else {
                rep.violation(&format!("inverse projection panics or errs on a lattice over the projected plane / {label}"), json!({"base": base, "shifted": shifted, "y": y, "results": format!("{ra:?} {rb:?}")}));
                continue;
            };
            rep.eval(2 * src.len() as u64);
            let fin = |c: &Coor4D| c.0[0].is_finite() && c.0[1].is_finite();
            let nan = |c: &Coor4D| c.0[0].is_nan() && c.0[1].is_nan();
            // honest counts, no half-transformed tuples, untouched elements kept
            for (n, d, def) in [(*na, &da, base), (*nb, &db, shifted)] {
                let finite = d.iter().filter(|c| fin(c)).count();
                let clean = d.iter().all(|c| fin(c) || nan(c));
                let kept = d.iter().all(|c| !fin(c) || (c.0[2] == 12.5 && c.0[3] == 2020.25));
                if n != finite || !clean || !kept {
                    rep.violation(
                        &format!("inverse projection over the whole projected plane: count differs from the number of finite results, a tuple is half transformed, or height/time change / {label}"),
                        json!({"def": def, "ellps": ellps, "y": y, "count": n, "finite": finite, "all_clean": clean, "height_time_kept": kept}),
                    );
                }
            }
            // a projected point that is transformed and counted must be the image of what it is transformed to: projecting
            // the result forward again gives the point back. Otherwise the point is outside the image of the projection (e.g.
            // in the wedge of the plane a cone does not cover) and "cannot be transformed" - yet looks valid.
            // Judged for the projections with closed-form inverses (lcc, laea, merc), whose inverse is exact wherever it is
            // defined. Not for somerc and omerc (far from the centre their double projection folds, see DESIGN section 4) and
            // not for the series based tmerc/btmerc family, whose accuracy degrades gradually towards the limit of the strip
            if ["lcc", "laea", "merc"].iter().any(|op| label.starts_with(&format!("{op} "))) {
                let mut back = da.clone();
                if let Ok(Ok(_)) = catch(|| ctx.apply(a, Fwd, &mut back)) {
                    for (k, (g, b)) in da.iter().zip(back.iter()).enumerate() {
                        if !fin(g) {
                            continue;
                        }
                        let d = (b.0[0] - src[k][0]).hypot(b.0[1] - src[k][1]);
                        if !(d < 1.0) {
                            rep.violation(
                                &format!("a projected point outside the image of the projection is transformed and counted (projecting the result forward does not give it back) / {label}"),
                                json!({"def": format!("{base} ellps={ellps}"), "projected_point": src[k], "inverse_gives": g.0, "forward_again": b.0, "distance_m": d}),
                            );
                            break;
                        }
                    }
                }
            }
            for (k, (ca, cb)) in da.iter().zip(db.iter()).enumerate() {
                seen.insert(hash_of(&(fin(ca), bits(ca.0[0]))));
                let same_class = fin(ca) == fin(cb);
                // ground distance (1 cm: far from the centre the inverses are ill conditioned, a shifted
                // false origin legitimately changes the last bits of the projected coordinate)
                let close = !fin(ca) || !fin(cb) || ell.ground(ca.0[0], ca.0[1], cb.0[0], cb.0[1]) < 0.01;
                if !same_class || !close {
                    rep.violation(
                        &format!("{} / {label}", if !same_class { "inverse domain limit depends on the false origin: a projected point is transformed and counted with one false origin, failed with another" } else { "inverse result depends on the false origin" }),
                        json!({"base": format!("{base} ellps={ellps}"), "shifted": format!("{shifted} ellps={ellps}"), "projected_point": src[k], "shift": [dx, dy],
                               "base_result": ca.0, "shifted_result": cb.0}),
                    );
                    break;
                }
            }
        }
        outcomes.lock().unwrap().extend(seen);
    });
}

pub fn run(tier: Tier) -> Report {
    let rep = Report::new("C10", tier, "exploration");
    rep.rule("operator table (32 entries) x supported directions x {inside, far outside} tuples x all 16 NaN masks over the four elements, each tuple applied alone and in one set; \
              grid operators with the null grid; pipelines with failing steps; every projection aspect x 2 ellipsoids x a lattice over the whole projected plane (inverse direction, \
              classification and result compared between two false origins). A per-operator dependency matrix says which outputs depend on which inputs. \
              distinct_nontrivial = distinct observed output bit patterns");
    rep.assume("the count clause is judged only for tuples whose worked-on elements are finite (what happens to the count when only an untouched element is NaN is not specified)");
    let wd = crate::util::enter_private_workdir();
    crate::catalog::install_grids(&wd);
    let t = table();
    rep.set("operators", json!(t.iter().map(|e| e.def).collect::<Vec<_>>()));
    let outcomes = Mutex::new(HashSet::new());
    par_range(t.len(), |i| check_entry(&rep, &t[i], &outcomes));
    null_grid_and_pipelines(&rep);
    domain_edges(&rep, tier, &outcomes);
    rep.sample(json!({"operator": t[0].def, "inside": t[0].inside, "outside_fwd": t[0].outside_fwd, "outside_inv": t[0].outside_inv, "nan_masks": 15}));
    rep.sample(json!({"operator": t[20].def, "outside": t[20].outside_fwd}));
    let o = outcomes.into_inner().unwrap();
    rep.nontrivial_bulk(&o);
    rep.outcomes_bulk(&o);
    Plain::clear_grids();
    crate::util::leave_private_workdir(&wd);
    rep
}
