//! C16 — definition layout is insignificant; parameters are typed as declared.
//!
//! (1) Layout: structured definitions rendered with a choice at every separator site
//!     (whitespace kinds, line ends, continuation colons, comments, blank lines, empty steps),
//!     modifier position, index spelling (x_0 / x₀) and </> vs omit_* spelling. ALL renderings with
//!     at most two deviations from the canonical one (plus uniform renderings) must instantiate
//!     operators with identical behaviour, identical parameters and identical step lists;
//!     `normalize` must be idempotent on every rendering.
//! (2) Typing: a harness-registered operator with one required and one optional key per
//!     OpParameter variant; every spelling of a per-type alphabet must parse to the reference value
//!     or be rejected with an error naming the key.

use crate::engine::*;
use crate::util::*;
use geodesy::authoring::*;
use serde_json::{json, Value};
use std::collections::HashSet;
use std::sync::Mutex;

// ----- (1) layout -----------------------------------------------------------------------------

#[derive(Clone, Debug)]
enum Item {
    KV(&'static str, Vec<&'static str>), // key = comma separated elements
    Flag(&'static str),
    Mod(&'static str), // inv / omit_fwd / omit_inv
}

#[derive(Clone, Debug)]
struct SDef {
    name: &'static str,
    items: Vec<Item>,
}

const TOKEN_SEP: [&str; 18] = [
    " ", "  ", "\t", "\n", "\r\n", "\r", "\n:", "\n:   ", " # x=99 inv comment\n", "\n# y=98 | z=97 own line comment\n", "\n\n",
    // the same with the other two line ends (a comment ends at ANY line end, a continuation colon follows ANY line end)
    "\r:", "\r\n:", " # x=99 inv comment\r", " # x=99 inv comment\r\n", "\r# y=98 | z=97 own line comment\r", "\r\n# y=98 | z=97 own line comment\r\n",
    // a comment runs from the FIRST '#' of the line
    " # x=95 # second hash in one comment | inv\n",
];
const EQ_SEP: [&str; 5] = ["=", " =", "= ", " = ", "\t=\n"];
const COMMA_SEP: [&str; 4] = [",", " ,", ", ", " ,\n"];
const PIPE_PAD: [&str; 11] = [" ", "", "  ", "\n", "\r\n", " # inv x=96 comment after step\n", "\n\n", "\r", " # inv x=96 comment after step\r", " # inv x=96 comment after step\r\n", " # the step # (sic) x=94\n"];
const EDGE: [&str; 6] = ["", " ", "\n", "\t", "\r\n", "\r"];
const EMPTY_STEP: [&str; 3] = ["", "|", "| |"];

struct Renderer<'a> {
    choice: &'a dyn Fn(usize) -> usize,
    site: usize,
    menus: Vec<usize>,
}

impl Renderer<'_> {
    fn pick(&mut self, n: usize) -> usize {
        let c = (self.choice)(self.site);
        self.site += 1;
        self.menus.push(n);
        if c < n {
            c
        } else {
            0
        }
    }
    fn menu(&mut self, m: &[&'static str]) -> &'static str {
        let k = self.pick(m.len());
        m[k]
    }
}

fn subscript(key: &str) -> Option<String> {
    let (stem, idx) = key.rsplit_once('_')?;
    let d = match idx {
        "0" => '₀',
        "1" => '₁',
        "2" => '₂',
        "3" => '₃',
        _ => return None,
    };
    Some(format!("{stem}{d}"))
}

/// Render a pipeline. `single`: a one-step definition is written without any pipe.
fn render(steps: &[SDef], r: &mut Renderer) -> String {
    let mut out = String::new();
    out.push_str(r.menu(&EDGE));
    for (si, st) in steps.iter().enumerate() {
        // separator in front of this step (not for the first one)
        // structural choice: omit_fwd/omit_inv as suffix modifier (0) or as </> sugar (1)
        let omit = st.items.iter().find_map(|i| match i {
            Item::Mod(m) if *m == "omit_fwd" || *m == "omit_inv" => Some(*m),
            _ => None,
        });
        let sugar = if omit.is_some() && (si > 0 || steps.len() > 1) { r.pick(2) == 1 } else { false };
        if si > 0 || sugar {
            let sep = if sugar {
                if omit == Some("omit_fwd") {
                    "<"
                } else {
                    ">"
                }
            } else {
                "|"
            };
            if si > 0 {
                out.push_str(r.menu(&PIPE_PAD));
                let extra = r.menu(&EMPTY_STEP);
                if !extra.is_empty() {
                    out.push_str(extra);
                    out.push(' ');
                }
            }
            out.push_str(sep);
            out.push_str(r.menu(&PIPE_PAD));
        }
        // tokens of the step
        let mut pre: Vec<String> = Vec::new();
        let mut mid: Vec<String> = Vec::new();
        let mut body: Vec<String> = Vec::new();
        let mut post: Vec<String> = Vec::new();
        for it in &st.items {
            match it {
                Item::Mod(m) => {
                    if sugar && Some(*m) == omit {
                        continue;
                    }
                    match r.pick(3) {
                        0 => post.push(m.to_string()),
                        1 => pre.push(m.to_string()),
                        _ => mid.push(m.to_string()),
                    }
                }
                // (an index in the name of a flag may be spelled with a subscript digit as well)
                Item::Flag(f) => body.push(match subscript(f) {
                    Some(s) if r.pick(2) == 1 => s,
                    _ => f.to_string(),
                }),
                Item::KV(k, vals) => {
                    let key = match subscript(k) {
                        Some(s) => {
                            if r.pick(2) == 1 {
                                s
                            } else {
                                k.to_string()
                            }
                        }
                        None => k.to_string(),
                    };
                    let mut t = key;
                    t.push_str(r.menu(&EQ_SEP));
                    for (vi, v) in vals.iter().enumerate() {
                        if vi > 0 {
                            t.push_str(r.menu(&COMMA_SEP));
                        }
                        t.push_str(v);
                    }
                    body.push(t);
                }
            }
        }
        let mut tokens: Vec<String> = pre;
        tokens.push(st.name.to_string());
        tokens.extend(mid);
        tokens.extend(body);
        tokens.extend(post);
        for (ti, t) in tokens.iter().enumerate() {
            if ti > 0 {
                out.push_str(r.menu(&TOKEN_SEP));
            }
            out.push_str(t);
        }
    }
    // trailing: optional empty step and edge whitespace
    if steps.len() > 1 {
        let extra = r.menu(&EMPTY_STEP);
        if !extra.is_empty() {
            out.push(' ');
            out.push_str(extra);
        }
    }
    out.push_str(r.menu(&EDGE));
    out
}

fn render_with(steps: &[SDef], choice: &dyn Fn(usize) -> usize) -> (String, Vec<usize>) {
    let mut r = Renderer { choice, site: 0, menus: Vec::new() };
    let s = render(steps, &mut r);
    (s, r.menus)
}

fn definitions() -> Vec<(&'static str, Vec<SDef>)> {
    use Item::*;
    vec![
        ("single-kv", vec![SDef { name: "helmert", items: vec![KV("x", vec!["3"]), KV("y", vec!["5"]), KV("z", vec!["7"])] }]),
        ("list-inv", vec![SDef { name: "helmert", items: vec![KV("translation", vec!["3", "5", "7"]), Flag("exact"), Mod("inv")] }]),
        (
            "three-steps",
            vec![
                SDef { name: "addone", items: vec![] },
                SDef { name: "helmert", items: vec![KV("x", vec!["3"]), KV("s", vec!["1000000"])] },
                SDef { name: "axisswap", items: vec![KV("order", vec!["2", "1"])] },
            ],
        ),
        (
            "directional",
            vec![
                SDef { name: "addone", items: vec![] },
                SDef { name: "helmert", items: vec![KV("x", vec!["3"]), Mod("omit_inv")] },
                SDef { name: "axisswap", items: vec![KV("order", vec!["2", "1"]), Mod("omit_fwd")] },
                SDef { name: "addone", items: vec![Mod("inv")] },
            ],
        ),
        (
            "macro-args",
            vec![SDef { name: "m:mac", items: vec![KV("x", vec!["4"]), Mod("inv")] }, SDef { name: "addone", items: vec![Mod("inv"), Mod("omit_fwd")] }],
        ),
        (
            "indices",
            vec![
                SDef { name: "tmerc", items: vec![KV("lat_0", vec!["3"]), KV("lon_0", vec!["9"]), KV("k_0", vec!["0.9996"]), KV("x_0", vec!["500000"]), KV("y_0", vec!["-100"])] },
                SDef { name: "noop", items: vec![] },
            ],
        ),
        ("ellps", vec![SDef { name: "cart", items: vec![KV("ellps", vec!["intl"])] }, SDef { name: "cart", items: vec![KV("ellps", vec!["6378137", "298.25"]), Mod("inv")] }]),
        (
            "stack",
            vec![SDef { name: "stack", items: vec![KV("push", vec!["1", "2"])] }, SDef { name: "addone", items: vec![] }, SDef { name: "stack", items: vec![KV("pop", vec!["1", "2"])] }],
        ),
        ("macro-alone", vec![SDef { name: "m:pipe", items: vec![Mod("inv")] }]),
        (
            "legacy-stack",
            vec![SDef { name: "push", items: vec![Flag("v_1"), Flag("v_2")] }, SDef { name: "addone", items: vec![] }, SDef { name: "pop", items: vec![Flag("v_2"), Flag("v_1")] }],
        ),
        ("lcc", vec![SDef { name: "lcc", items: vec![KV("lat_1", vec!["33"]), KV("lat_2", vec!["45"]), KV("lon_0", vec!["10"]), KV("lat_0", vec!["40"]), KV("ellps", vec!["bessel"])] }]),
        ("adaptors", vec![SDef { name: "geo:in", items: vec![] }, SDef { name: "utm", items: vec![KV("zone", vec!["32"])] }, SDef { name: "neu:out", items: vec![Mod("omit_inv")] }]),
    ]
}

fn new_ctx() -> Minimal {
    let mut ctx = Minimal::new();
    ctx.register_resource("m:mac", "helmert x=(1) y=$x(2)");
    ctx.register_resource("m:pipe", "addone | helmert x=3 s=1000000 | axisswap order=2,1");
    ctx
}

/// Observation of one rendering: fingerprint, token-sorted step list, per-step typed parameters
#[derive(PartialEq, Debug, Clone)]
struct Obs {
    fp: Vec<u64>,
    steps: Vec<Vec<String>>,
    raw_steps: Vec<String>,
    params: Vec<String>,
}

fn canon_token(t: &str) -> String {
    // the canonical form of the sugar and of the subscript spelling is part of normalisation
    t.to_string()
}

fn observe(text: &str) -> Result<Obs, String> {
    let mut ctx = new_ctx();
    let op = match catch(|| ctx.op(text)) {
        Err(p) => return Err(format!("PANIC {p}")),
        Ok(Err(e)) => return Err(format!("ERR {e}")),
        Ok(Ok(op)) => op,
    };
    let fp = fingerprint(&ctx, op);
    let raw_steps = ctx.steps(op).map(|s| s.clone()).unwrap_or_default();
    let steps = raw_steps
        .iter()
        .map(|s| {
            let mut t: Vec<String> = s.split_whitespace().map(canon_token).collect();
            t.sort();
            t
        })
        .collect();
    let mut params = Vec::new();
    for i in 0..raw_steps.len().max(1) {
        if let Ok(p) = ctx.params(op, i) {
            params.push(format!(
                "{} b={:?} n={:?} i={:?} r={:?} s={:?} t={:?} ts={:?}",
                p.name,
                p.boolean,
                p.natural,
                p.integer,
                p.real.iter().map(|(k, v)| (*k, bits(*v))).collect::<Vec<_>>(),
                p.series.iter().map(|(k, v)| (*k, v.iter().map(|x| bits(*x)).collect::<Vec<_>>())).collect::<Vec<_>>(),
                p.text,
                p.texts
            ));
        }
    }
    Ok(Obs { fp, steps, raw_steps, params })
}

fn site_kind(steps: &[SDef], site: usize, alt: usize) -> String {
    // coarse description of a deviation: which kind of site, which alternative
    let (_, menus) = render_with(steps, &|_| 0);
    let m = menus[site];
    let name = |names: &[&str]| names.get(alt).copied().unwrap_or("?").to_string();
    if m == TOKEN_SEP.len() {
        format!("token-sep:{}", name(&["sp", "2sp", "tab", "lf", "crlf", "cr", "colon", "colon+sp", "trailing-comment", "own-line-comment", "blank-line", "cr+colon", "crlf+colon", "trailing-comment+cr", "trailing-comment+crlf", "own-line-comment+cr", "own-line-comment+crlf"]))
    } else if m == EQ_SEP.len() {
        "eq:whitespace".to_string()
    } else if m == COMMA_SEP.len() {
        "comma:whitespace".to_string()
    } else if m == PIPE_PAD.len() {
        format!("pipe-pad:{}", name(&["sp", "none", "2sp", "lf", "crlf", "comment", "blank-line", "cr", "comment+cr", "comment+crlf"]))
    } else if m == 3 {
        // EMPTY_STEP and modifier position both have 3 alternatives; tell them apart by rendering
        let (canon, _) = render_with(steps, &|_| 0);
        let (var, _) = render_with(steps, &|s| if s == site { alt } else { 0 });
        let pipes = |t: &str| t.matches('|').count() + t.matches('<').count() + t.matches('>').count();
        if pipes(&var) != pipes(&canon) {
            "empty-step".to_string()
        } else {
            format!("modifier:{}", name(&["suffix", "prefix", "infix"]))
        }
    } else if m == 2 {
        let (var, _) = render_with(steps, &|s| if s == site { alt } else { 0 });
        if var.contains('<') || var.contains('>') {
            "sugar".to_string()
        } else {
            "subscript".to_string()
        }
    } else {
        format!("edge:{}", name(&["none", "sp", "lf", "tab", "crlf", "cr"]))
    }
}

fn layout(rep: &Report, max_dev: usize) {
    let defs = definitions();
    let outcomes = Mutex::new(HashSet::new());
    for (label, steps) in &defs {
        let (canon_text, menus) = render_with(steps, &|_| 0);
        let canon = match observe(&canon_text) {
            Ok(o) => o,
            Err(e) => {
                rep.violation(&format!("layout: canonical rendering of '{label}' is rejected"), json!({"definition": canon_text, "error": e}));
                continue;
            }
        };
        // deviation sets
        let mut devs: Vec<Vec<(usize, usize)>> = vec![vec![]];
        let singles: Vec<(usize, usize)> = menus.iter().enumerate().flat_map(|(s, &m)| (1..m).map(move |a| (s, a))).collect();
        for &d in &singles {
            devs.push(vec![d]);
        }
        if max_dev >= 2 {
            for (i, &d1) in singles.iter().enumerate() {
                for &d2 in &singles[i + 1..] {
                    if d1.0 != d2.0 {
                        devs.push(vec![d1, d2]);
                    }
                }
            }
        }
        if max_dev >= 3 {
            for (i, &d1) in singles.iter().enumerate() {
                for (j, &d2) in singles.iter().enumerate().skip(i + 1) {
                    if d1.0 == d2.0 {
                        continue;
                    }
                    for &d3 in &singles[j + 1..] {
                        if d3.0 != d1.0 && d3.0 != d2.0 {
                            devs.push(vec![d1, d2, d3]);
                        }
                    }
                }
            }
        }
        rep.add_to("layout_spaces", json!({"definition": label, "canonical": canon_text, "sites": menus.len(), "renderings": devs.len()}));
        let n = devs.len();
        // pass 1: which single deviations fail on their own
        let failing_singles: Mutex<HashSet<(usize, usize)>> = Mutex::new(HashSet::new());
        par_range(singles.len(), |k| {
            let d = singles[k];
            let (text, _) = render_with(steps, &|s| if s == d.0 { d.1 } else { 0 });
            let bad = match observe(&text) {
                Ok(o) => o.fp != canon.fp || o.params != canon.params || o.steps != canon.steps,
                Err(_) => true,
            };
            if bad {
                failing_singles.lock().unwrap().insert(d);
            }
        });
        let failing_singles = failing_singles.into_inner().unwrap();
        par_range(n, |k| {
            if devs[k].len() >= 2 && devs[k].iter().any(|d| failing_singles.contains(d)) {
                // already attributed to the single deviation (still counted as explored)
                rep.eval(1);
                return;
            }
            let dev = &devs[k];
            let (text, _) = render_with(steps, &|s| dev.iter().find(|d| d.0 == s).map(|d| d.1).unwrap_or(0));
            rep.eval(1);
            let shape = if steps.len() == 1 { "single step" } else { "pipeline" };
            let describe = || {
                let mut k = dev.iter().map(|d| site_kind(steps, d.0, d.1)).collect::<Vec<_>>();
                k.sort();
                k.dedup();
                format!("{shape}: {}", k.join(" + "))
            };
            // normalize is idempotent
            let n1 = text.normalize();
            let n2 = n1.normalize();
            if n1 != n2 {
                rep.violation(&format!("layout: normalize is not idempotent / {}", describe()), json!({"kind": "layout", "text": text, "once": n1, "twice": n2}));
            }
            match observe(&text) {
                Err(e) => rep.violation(
                    &format!("layout: rendering rejected or panics ({}) / {}", e.split(' ').next().unwrap_or(""), describe()),
                    json!({"kind": "layout", "text": text, "canonical": canon_text, "error": e}),
                ),
                Ok(o) => {
                    outcomes.lock().unwrap().insert(hash_of(&text));
                    if o.fp != canon.fp {
                        rep.violation(&format!("layout: behaviour differs from the canonical rendering / {}", describe()), json!({"kind": "layout", "text": text, "canonical": canon_text}));
                    } else if o.params != canon.params {
                        rep.violation(
                            &format!("layout: parsed parameters differ from the canonical rendering / {}", describe()),
                            json!({"kind": "layout", "text": text, "canonical": canon_text, "params": o.params, "canonical_params": canon.params}),
                        );
                    } else if o.steps != canon.steps {
                        rep.violation(
                            &format!("layout: step list differs from the canonical rendering / {}", describe()),
                            json!({"kind": "layout", "text": text, "canonical": canon_text, "steps": o.raw_steps, "canonical_steps": canon.raw_steps}),
                        );
                    }
                    if k == 1 || k == n / 2 || k == n - 1 {
                        rep.sample(json!({"definition": label, "rendering": text, "steps": o.raw_steps}));
                    }
                }
            }
        });
        // uniform renderings: the same alternative at every site with the same menu size
        for msize in [TOKEN_SEP.len(), EQ_SEP.len(), COMMA_SEP.len(), PIPE_PAD.len()] {
            for alt in 1..msize {
                let (text, _) = render_with(steps, &|s| if menus[s] == msize { alt } else { 0 });
                rep.eval(1);
                match observe(&text) {
                    Ok(o) if o.fp == canon.fp && o.params == canon.params && o.steps == canon.steps => {
                        outcomes.lock().unwrap().insert(hash_of(&text));
                    }
                    other => rep.violation(
                        &format!("layout: uniform rendering differs / {} / menu {msize} alternative {alt}", if steps.len() == 1 { "single step" } else { "pipeline" }),
                        json!({"kind": "layout", "text": text, "canonical": canon_text, "observed": format!("{other:?}").chars().take(300).collect::<String>()}),
                    ),
                }
            }
        }
    }
    let o = outcomes.into_inner().unwrap();
    rep.nontrivial_bulk(&o);
    rep.outcomes_bulk(&o);
}

// ----- (2) typing -----------------------------------------------------------------------------

fn typed_fwd(_op: &Op, _ctx: &dyn Context, operands: &mut dyn CoordinateSet) -> usize {
    operands.len()
}

#[rustfmt::skip]
const TYPED_GAMUT: [OpParameter; 13] = [
    OpParameter::Flag    { key: "f" },
    OpParameter::Natural { key: "n",   default: Some(7) },
    OpParameter::Natural { key: "nr",  default: None },
    OpParameter::Integer { key: "i",   default: Some(-3) },
    OpParameter::Integer { key: "ir",  default: None },
    OpParameter::Real    { key: "r",   default: Some(1.25) },
    OpParameter::Real    { key: "rr",  default: None },
    OpParameter::Series  { key: "s",   default: Some("1,2") },
    OpParameter::Series  { key: "sr",  default: None },
    OpParameter::Text    { key: "t",   default: Some("dflt") },
    OpParameter::Text    { key: "tr",  default: None },
    OpParameter::Texts   { key: "ts",  default: Some("a,b") },
    OpParameter::Texts   { key: "tsr", default: None },
];

fn typed_new(parameters: &RawParameters, ctx: &dyn Context) -> Result<Op, Error> {
    Op::plain(parameters, InnerOp(typed_fwd), Some(InnerOp(typed_fwd)), &TYPED_GAMUT, ctx)
}

const REQUIRED: &str = "nr=1 ir=-1 rr=0.5 sr=9 tr=x tsr=y";

fn typed_params(extra: &str) -> Result<Result<ParsedParameters, String>, String> {
    catch(|| {
        let mut ctx = Minimal::default();
        ctx.register_op("typed", OpConstructor(typed_new));
        // the tested item goes in the middle of the definition (a definition ending in ':' is a
        // continuation-colon layout matter, not a typing matter); required keys it sets are left out
        let keys: Vec<&str> = extra.split_whitespace().filter_map(|t| t.split('=').next()).collect();
        let req: Vec<&str> = REQUIRED.split(' ').filter(|kv| !keys.contains(&kv.split('=').next().unwrap())).collect();
        // (a value ending in ',' would glue to the next token by the documented normalisation: put it last)
        // (likewise an empty value, `key=`: by the documented rule "= " -> "=" it would swallow the next token)
        let (a, b) = req.split_at(if extra.ends_with(',') || extra.ends_with('=') { req.len() } else { req.len() / 2 });
        let op = ctx.op(&format!("typed {} {extra} {}", a.join(" "), b.join(" "))).map_err(|e| e.to_string())?;
        ctx.params(op, 0).map_err(|e| e.to_string())
    })
}

/// Reference parser for reals: decimal or sexagesimal with optional hemisphere letter.
/// None = must be rejected; Some(None) = not judged (ambiguous spelling)
fn ref_real(text: &str) -> Option<Option<f64>> {
    let t = text.trim();
    if t.is_empty() {
        return None;
    }
    let (body, hemi) = match t.chars().last().unwrap() {
        'N' | 'n' | 'E' | 'e' => (&t[..t.len() - 1], Some(1.)),
        'S' | 's' | 'W' | 'w' => (&t[..t.len() - 1], Some(-1.)),
        _ => (t, None),
    };
    let parts: Vec<&str> = body.split(':').collect();
    if parts.len() > 3 {
        return None;
    }
    let mut vals = Vec::new();
    for p in &parts {
        match p.parse::<f64>() {
            Ok(v) if !v.is_nan() => vals.push(v),
            _ => return None,
        }
    }
    // exponent-e ambiguity: "1e" etc. fails above. A trailing 'e'/'E' hemisphere after a number is fine.
    let explicit_neg = body.trim_start().starts_with('-');
    if hemi.is_some() && explicit_neg {
        return Some(None); // "-1:30S": double negation is not specified
    }
    if parts.len() > 1 && vals[1..].iter().any(|v| *v < 0.) {
        return Some(None); // negative minutes/seconds: unspecified
    }
    if vals.iter().any(|v| v.is_infinite()) {
        return Some(None);
    }
    let sign = if explicit_neg { -1. } else { 1. } * hemi.unwrap_or(1.);
    let mag = vals[0].abs() + vals.get(1).copied().unwrap_or(0.) / 60. + vals.get(2).copied().unwrap_or(0.) / 3600.;
    Some(Some(sign * mag))
}

fn real_alphabet() -> Vec<String> {
    let mut v: Vec<String> = Vec::new();
    for sign in ["", "-", "+"] {
        for d in ["0", "1", "12", "179", "0.5", "12.75"] {
            for ms in ["", ":0", ":30", ":59", ":30:0", ":0:0.5", ":59:59.999", ":30:36", ":07.5"] {
                if d.contains('.') && !ms.is_empty() {
                    continue;
                }
                for h in ["", "N", "S", "E", "W", "n", "s", "e", "w"] {
                    v.push(format!("{sign}{d}{ms}{h}"));
                }
            }
        }
    }
    for x in [
        "1e3", "-1.5e-3", "1E2", ".5", "5.", "1e400", "", "abc", "1:2:3:4", "1::2", ":1", "1:", "1°", "ø", "12ø", "NaN", "nan", "inf", "1,5", "--1", "1:-30", "12N34", "N", "S12", "1 2", "0x10",
        "1_0", "١٢", "1:30:36NN", "١",
    ] {
        v.push(x.to_string());
    }
    v
}

fn close(a: f64, b: f64) -> bool {
    bits(a) == bits(b) || (a - b).abs() <= 2. * f64::EPSILON * a.abs().max(b.abs())
}

fn names_key(err: &str, key: &str) -> bool {
    // the error must name the parameter
    err.contains(&format!("'{key}'")) || err.contains(&format!("{key}:")) || err.contains(&format!(" {key} "))
}

fn typing(rep: &Report) {
    let outcomes = Mutex::new(HashSet::new());
    let seen = |h: u64| {
        outcomes.lock().unwrap().insert(h);
    };
    let judge_err = |what: &str, key: &str, spelling: &str, r: &Result<Result<ParsedParameters, String>, String>| match r {
        Err(p) => rep.violation(&format!("typing: panic for {what} spelling: {}", panic_class(p)), json!({"kind": "typing", "key": key, "spelling": spelling, "panic": p})),
        Ok(Err(e)) => {
            if !names_key(e, key) {
                rep.violation(&format!("typing: rejection of a bad {what} does not name the parameter"), json!({"kind": "typing", "key": key, "spelling": spelling, "error": e}));
            }
        }
        Ok(Ok(_)) => rep.violation(&format!("typing: malformed {what} accepted"), json!({"kind": "typing", "key": key, "spelling": spelling})),
    };

    // defaults, required, unknown keys, flags
    rep.eval(1);
    match typed_params("") {
        Ok(Ok(p)) => {
            let ok = !p.boolean("f") && p.natural("n").ok() == Some(7)
                && p.integer("i").ok() == Some(-3) && p.real("r").ok() == Some(1.25) && p.series("s").ok() == Some(&[1., 2.][..])
                && p.text("t").ok().as_deref() == Some("dflt") && p.texts("ts").ok() == Some(&vec!["a".to_string(), "b".to_string()])
                && p.natural("nr").ok() == Some(1) && p.integer("ir").ok() == Some(-1) && p.real("rr").ok() == Some(0.5) && p.series("sr").ok() == Some(&[9.][..])
                && p.text("tr").ok().as_deref() == Some("x") && p.texts("tsr").ok() == Some(&vec!["y".to_string()]);
            if !ok {
                rep.violation("typing: omitted optional parameters do not take their declared defaults", json!({"kind": "typing", "params": format!("{p:?}").chars().take(600).collect::<String>()}));
            }
        }
        other => rep.violation("typing: operator with all required parameters is rejected", json!({"kind": "typing", "result": format!("{other:?}").chars().take(300).collect::<String>()})),
    }
    for missing in ["nr", "ir", "rr", "sr", "tr", "tsr"] {
        rep.eval(1);
        let req: Vec<&str> = REQUIRED.split(' ').filter(|kv| !kv.starts_with(&format!("{missing}="))).collect();
        let r = catch(|| {
            let mut ctx = Minimal::default();
            ctx.register_op("typed", OpConstructor(typed_new));
            ctx.op(&format!("typed {}", req.join(" "))).map(|_| ()).map_err(|e| e.to_string())
        });
        match r {
            Ok(Err(e)) if names_key(&e, missing) => {}
            other => rep.violation("typing: missing required parameter is not demanded by name", json!({"kind": "typing", "missing": missing, "result": format!("{other:?}")})),
        }
    }
    for (extra, want) in [("f", true), ("f=true", true), ("", false), ("unknown=1 other", false), ("f unknown=2", true)] {
        rep.eval(1);
        match typed_params(extra) {
            Ok(Ok(p)) if p.boolean("f") == want => {}
            other => rep.violation("typing: flag / unknown key handling wrong", json!({"kind": "typing", "extra": extra, "result": format!("{other:?}").chars().take(200).collect::<String>()})),
        }
    }
    // last of repeated keys wins
    for (extra, key, want) in [("r=1 r=2", "r", 2.), ("r=2 r=1", "r", 1.), ("rr=5 r=3", "rr", 5.), ("r=1 x=9 r=4 r=3", "r", 3.)] {
        rep.eval(1);
        match typed_params(extra) {
            Ok(Ok(p)) if p.real(key).ok() == Some(want) => {}
            other => rep.violation("typing: the last of repeated keys does not win", json!({"kind": "typing", "extra": extra, "result": format!("{other:?}").chars().take(200).collect::<String>()})),
        }
    }

    // naturals and integers: exactly Rust's integer grammar
    let ints = ["0", "5", "007", "+5", "-1", "-0", "1.5", "1e3", "", "٣", "99999999999999999999999", "18446744073709551615", "18446744073709551616", "9223372036854775807", "-9223372036854775808", "-9223372036854775809", "1 ", "0x1f", "1_000", "abc", "--1", "1:30"];
    for sp in ints {
        if sp.contains(' ') || sp.is_empty() {
            continue; // whitespace/empty values are a layout matter: `n= 5` glues to `n=5`
        }
        for (key, is_nat) in [("n", true), ("nr", true), ("i", false), ("ir", false)] {
            rep.eval(1);
            let r = typed_params(&format!("{key}={sp}"));
            let reference: Option<i128> = if is_nat { sp.parse::<usize>().ok().map(|v| v as i128) } else { sp.parse::<i64>().ok().map(|v| v as i128) };
            match reference {
                None => judge_err(if is_nat { "natural" } else { "integer" }, key, sp, &r),
                Some(want) => match &r {
                    Ok(Ok(p)) => {
                        let got = if is_nat { p.natural(key).ok().map(|v| v as i128) } else { p.integer(key).ok().map(|v| v as i128) };
                        seen(hash_of(&(key, got)));
                        if got != Some(want) {
                            rep.violation("typing: integer value parsed to a different number", json!({"kind": "typing", "key": key, "spelling": sp, "got": format!("{got:?}")}));
                        }
                    }
                    other => rep.violation("typing: well-formed integer rejected", json!({"kind": "typing", "key": key, "spelling": sp, "result": format!("{other:?}").chars().take(200).collect::<String>()})),
                },
            }
        }
    }

    // reals: the full sexagesimal alphabet
    let reals = real_alphabet();
    rep.set("real_spellings", json!(reals.len()));
    for sp in &reals {
        if sp.contains(' ') {
            continue;
        }
        for key in ["r", "rr"] {
            rep.eval(1);
            let r = typed_params(&format!("{key}={sp}"));
            if sp.is_empty() {
                // `r=` : an empty value; must be rejected for a real
                judge_err("real", key, sp, &r);
                continue;
            }
            match ref_real(sp) {
                None => judge_err("real", key, sp, &r),
                Some(None) => {
                    if let Err(p) = &r {
                        rep.violation(&format!("typing: panic for real spelling: {}", panic_class(p)), json!({"kind": "typing", "key": key, "spelling": sp, "panic": p}));
                    }
                }
                Some(Some(want)) => match &r {
                    Ok(Ok(p)) => {
                        let got = p.real(key).unwrap_or(f64::NAN);
                        seen(hash_of(&(key, bits(got))));
                        if !close(got, want) {
                            let cls = if sp.contains(':') { "sexagesimal" } else { "decimal" };
                            let zero = if sp.trim_start_matches(['-', '+']).starts_with("0:") { " with zero degrees" } else { "" };
                            rep.violation(&format!("typing: {cls} real{zero} parsed to a different value"), json!({"kind": "typing", "key": key, "spelling": sp, "got": got, "expected": want}));
                        }
                    }
                    other => rep.violation("typing: well-formed real rejected", json!({"kind": "typing", "key": key, "spelling": sp, "result": format!("{other:?}").chars().take(200).collect::<String>()})),
                },
            }
        }
    }

    // series: comma separated reals
    let series = ["", "1,2,3", "1", "1.5,-2.5e1", "1:30,2:30S", "1,,2", "1,2,", ",1", "a,b", "1,b", "1;2", "1,2,3,4,5,6,7,8,9,10", "0:30,0:0:36", "ø,1", "1,ø"];
    for sp in series {
        for key in ["s", "sr"] {
            rep.eval(1);
            let r = typed_params(&format!("{key}={sp}"));
            let parts: Vec<Option<Option<f64>>> = sp.split(',').map(ref_real).collect();
            // (`s=` as the last token of the step: a series without any element is no series)
            if parts.iter().any(|p| p.is_none()) {
                judge_err("series", key, sp, &r);
            } else if parts.iter().all(|p| matches!(p, Some(Some(_)))) {
                let want: Vec<f64> = parts.iter().map(|p| p.unwrap().unwrap()).collect();
                match &r {
                    Ok(Ok(p)) => {
                        let got = p.series(key).map(|s| s.to_vec()).unwrap_or_default();
                        seen(hash_of(&(key, got.iter().map(|x| bits(*x)).collect::<Vec<_>>())));
                        if got.len() != want.len() || !got.iter().zip(want.iter()).all(|(a, b)| close(*a, *b)) {
                            rep.violation("typing: series parsed to different values", json!({"kind": "typing", "key": key, "spelling": sp, "got": got, "expected": want}));
                        }
                    }
                    other => rep.violation("typing: well-formed series rejected", json!({"kind": "typing", "key": key, "spelling": sp, "result": format!("{other:?}").chars().take(200).collect::<String>()})),
                }
            }
        }
    }

    // text and text lists: exactly what is written
    for sp in ["abc", "a.b-c_d", "ø", "日本", "1,2", "@null", "a:b", "file₁.gsb", "x₀"] {
        for key in ["t", "tr"] {
            rep.eval(1);
            match typed_params(&format!("{key}={sp}")) {
                Ok(Ok(p)) if p.text(key).ok().as_deref() == Some(sp) => seen(hash_of(&(key, sp))),
                other => rep.violation("typing: text value not kept as written", json!({"kind": "typing", "key": key, "spelling": sp, "result": format!("{other:?}").chars().take(200).collect::<String>()})),
            }
        }
    }
    for (sp, want) in [("a", vec!["a"]), ("a,b,c", vec!["a", "b", "c"]), ("@x.grid,y.gsb,@null", vec!["@x.grid", "y.gsb", "@null"]), ("ø,日本", vec!["ø", "日本"]), ("a₂,b", vec!["a₂", "b"])] {
        for key in ["ts", "tsr"] {
            rep.eval(1);
            let want: Vec<String> = want.iter().map(|s| s.to_string()).collect();
            match typed_params(&format!("{key}={sp}")) {
                Ok(Ok(p)) if p.texts(key).ok() == Some(&want) => seen(hash_of(&(key, sp))),
                other => rep.violation("typing: text list not split as written", json!({"kind": "typing", "key": key, "spelling": sp, "result": format!("{other:?}").chars().take(200).collect::<String>()})),
            }
        }
    }
    // every subscript digit (one digit: `x₁₀` is desugared digit by digit to `x_1_0`, which the statement does not
    // settle) in a key, in a flag and in a looked-up name: the same definition as
    // with the underscore spelling (normal form, step list, parameters as given)
    const SUBS: [char; 10] = ['₀', '₁', '₂', '₃', '₄', '₅', '₆', '₇', '₈', '₉'];
    for idx in (0..10usize).map(|d| vec![d]) {
        rep.eval(1);
        let sub: String = idx.iter().map(|&d| SUBS[d]).collect();
        let und: String = format!("_{}", idx.iter().map(|d| d.to_string()).collect::<String>());
        let a = format!("addone x{sub}=42 v{sub} y=$z{sub}(3) | addone inv k{sub}=1");
        let b = format!("addone x{und}=42 v{und} y=$z{und}(3) | addone inv k{und}=1");
        let look = |text: &str| -> Result<(String, String, Vec<String>, Vec<String>), String> {
            catch(|| {
                let mut ctx = Minimal::default();
                let op = ctx.op(text).map_err(|e| e.to_string())?;
                let steps = ctx.steps(op).map_err(|e| e.to_string())?.clone();
                let given: Vec<String> = (0..steps.len()).map(|i| ctx.params(op, i).map(|p| format!("{:?}", p.given)).unwrap_or_else(|e| e.to_string())).collect();
                Ok((text.normalize(), text.normalize().normalize(), steps, given))
            })
            .unwrap_or_else(|p| Err(format!("PANIC {p}")))
        };
        let (ra, rb) = (look(&a), look(&b));
        seen(hash_of(&format!("{ra:?}")));
        let idem = matches!(&ra, Ok((n1, n2, _, _)) if n1 == n2);
        if ra != rb || ra.is_err() || !idem {
            rep.violation("subscript-digit spelling of an index is significant", json!({"kind": "subscript", "subscript_spelling": a, "underscore_spelling": b, "subscript_gives": format!("{ra:?}"), "underscore_gives": format!("{rb:?}")}));
        }
    }
    let o = outcomes.into_inner().unwrap();
    rep.nontrivial_bulk(&o);
    rep.outcomes_bulk(&o);
}

pub fn run(tier: Tier) -> Report {
    let rep = Report::new("C16", tier, "model_checking");
    rep.rule("layout: every rendering of 11 structured definitions with at most 2 deviating sites (whitespace kind, line end, continuation colon, comment, \
              blank line, empty step, modifier position, subscript spelling, </> sugar) plus uniform renderings, each compared (fingerprint, typed parameters, \
              token-sorted step list) with the canonical rendering; typing: complete per-type spelling alphabets against reference parsers. \
              Non-trivial/distinct = distinct accepted rendering text / distinct parsed value");
    rep.assume("step lists are compared as token multisets per step (modifier position and </> sugar change the order of tokens inside a step text, which the property calls insignificant)");
    rep.assume("continuation colons are tested at column 0 of a continuation line, as in the documentation's example");
    rep.assume("spellings combining an explicit minus sign with a hemisphere letter, negative minutes/seconds and overflowing exponents are not judged (not specified)");
    layout(&rep, tier.pick(2, 3));
    rep.set("max_deviations", json!(tier.pick(2, 3)));
    typing(&rep);
    let e = rep.evaluations.load(std::sync::atomic::Ordering::Relaxed);
    rep.state(e);
    rep.transition(e);
    rep.trace(e);
    rep
}

pub fn replay(case: &Value) -> Result<String, String> {
    match case["kind"].as_str() {
        Some("layout") => {
            let text = case["text"].as_str().unwrap_or("");
            let canon = case["canonical"].as_str().unwrap_or("");
            let (a, b) = (observe(text), observe(canon));
            match (&a, &b) {
                (Ok(x), Ok(y)) if x.fp == y.fp && x.params == y.params && x.steps == y.steps => Ok(format!("{text:?} == {canon:?}")),
                _ => Err(format!("{text:?} vs {canon:?}: {:?} / {:?}", a.map(|o| o.raw_steps), b.map(|o| o.raw_steps))),
            }
        }
        _ => {
            let key = case["key"].as_str().unwrap_or("r");
            let sp = case["spelling"].as_str().unwrap_or("");
            Err(format!("recorded typing violation; raw behaviour now: {:?}", typed_params(&format!("{key}={sp}")).map(|r| r.map(|p| format!("{:?} {:?} {:?}", p.real, p.natural, p.series)))))
        }
    }
}
