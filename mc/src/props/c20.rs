//! C20 — the kp command line program prints what the library computes.
//! Complete product of option combinations x operations x input shapes, plus the internal batch
//! axis (24999, 25000, 25001, 50000, 50001 lines). The worker is the `kp` binary built from
//! /repo's working tree; the oracle formats the in-process library result.

use crate::engine::*;
use geodesy::authoring::*;
use serde_json::json;
use std::collections::HashSet;
use std::io::Write;
use std::path::{Path, PathBuf};
use std::process::{Command, Stdio};
use std::sync::Mutex;

fn kp_path() -> PathBuf {
    PathBuf::from(VERIF_ROOT).join("target").join("kp").join("debug").join("kp")
}

struct Run {
    status: Option<i32>,
    stdout: String,
    stderr: String,
}

fn run_kp(wd: &Path, args: &[String], stdin: Option<&str>) -> Result<Run, String> {
    let mut child = Command::new(kp_path())
        .args(args)
        .current_dir(wd)
        .env("XDG_DATA_HOME", wd.join("xdg"))
        .env("HOME", wd.join("xdg"))
        .env_remove("RUST_LOG")
        .stdin(Stdio::piped())
        .stdout(Stdio::piped())
        .stderr(Stdio::piped())
        .spawn()
        .map_err(|e| format!("cannot start kp: {e}"))?;
    {
        let mut si = child.stdin.take().unwrap();
        if let Some(s) = stdin {
            let _ = si.write_all(s.as_bytes());
        }
    }
    let out = child.wait_with_output().map_err(|e| e.to_string())?;
    Ok(Run { status: out.status.code(), stdout: String::from_utf8_lossy(&out.stdout).to_string(), stderr: String::from_utf8_lossy(&out.stderr).to_string() })
}

#[derive(Clone, Debug)]
struct Opts {
    inv: bool,
    roundtrip: bool,
    z: Option<f64>,
    t: Option<f64>,
    d: Option<usize>,
    dim: Option<usize>,
}

impl Opts {
    fn args(&self) -> Vec<String> {
        let mut v = Vec::new();
        if self.inv {
            v.push("--inv".into());
        }
        if self.roundtrip {
            v.push("-r".into());
        }
        if let Some(z) = self.z {
            v.push("-z".into());
            v.push(format!("{z}"));
        }
        if let Some(t) = self.t {
            v.push("-t".into());
            v.push(format!("{t}"));
        }
        if let Some(d) = self.d {
            v.push("-d".into());
            v.push(format!("{d}"));
        }
        if let Some(d) = self.dim {
            v.push("-D".into());
            v.push(format!("{d}"));
        }
        v
    }
}

/// The harness's own reading of an input number: a real, or D:M[:S] with a sign prefix or a hemisphere
/// letter (independent of the library's parser, which kp uses)
fn ref_number(t: &str) -> f64 {
    let t = t.trim();
    let (body, hemi) = match t.chars().last() {
        Some(c) if "NnEe".contains(c) => (&t[..t.len() - 1], 1.),
        Some(c) if "SsWw".contains(c) => (&t[..t.len() - 1], -1.),
        _ => (t, 1.),
    };
    let negative = body.starts_with('-');
    let fields: Vec<&str> = body.trim_start_matches(['-', '+']).split(':').collect();
    if fields.is_empty() || fields.len() > 3 {
        return f64::NAN;
    }
    let mut v = 0.;
    for (i, f) in fields.iter().enumerate() {
        match f.parse::<f64>() {
            Ok(x) => v += x / [1., 60., 3600.][i],
            Err(_) => return f64::NAN,
        }
    }
    hemi * if negative { -v } else { v }
}

/// the coordinate lines of an input text: (tuple as the library sees it, number of columns)
fn parse_input(text: &str, o: &Opts) -> Vec<([f64; 4], usize)> {
    let mut v = Vec::new();
    for line in text.lines() {
        // a comment starts at '#', also when it is glued to the preceding value
        let line = line.split('#').next().unwrap_or("");
        let toks: Vec<&str> = line.split_whitespace().collect();
        if toks.is_empty() {
            continue;
        }
        let n = toks.len().min(4);
        let get = |i: usize, default: f64| toks.get(i).map(|t| ref_number(t)).unwrap_or(default);
        let mut c = [get(0, 0.), get(1, 0.), get(2, 0.), get(3, f64::NAN)];
        // missing height / time default to -z / -t (judged only for lines that do not give them)
        if toks.len() < 3 {
            c[2] = o.z.unwrap_or(0.);
        }
        if toks.len() < 4 {
            c[3] = o.t.unwrap_or(f64::NAN);
        }
        v.push((c, n));
    }
    v
}

/// Does a line give a height / time although -z / -t is given? (then the statement does not say which wins)
fn line_conflicts(text: &str, o: &Opts) -> bool {
    text.lines().any(|line| {
        let toks: Vec<&str> = line.split('#').next().unwrap_or("").split_whitespace().collect();
        (o.z.is_some() && toks.len() >= 3) || (o.t.is_some() && toks.len() >= 4)
    })
}

fn expected_values(op_def: &str, o: &Opts, tuples: &[[f64; 4]]) -> Result<Vec<[f64; 4]>, String> {
    let mut ctx = Plain::new();
    let op = ctx.op(op_def).map_err(|e| e.to_string())?;
    let mut data: Vec<Coor4D> = tuples.iter().map(|t| Coor4D(*t)).collect();
    let (first, second) = if o.inv { (Inv, Fwd) } else { (Fwd, Inv) };
    ctx.apply(op, first, &mut data).map_err(|e| e.to_string())?;
    if o.roundtrip {
        ctx.apply(op, second, &mut data).map_err(|e| e.to_string())?;
        for (d, t) in data.iter_mut().zip(tuples.iter()) {
            for k in 0..4 {
                d.0[k] -= t[k];
            }
        }
    }
    Ok(data.iter().map(|c| c.0).collect())
}

fn judge(rep: &Report, label: &str, op_def: &str, o: &Opts, inputs: &[String], run: &Run, key_class: &str, seen: &Mutex<HashSet<u64>>) {
    let text = inputs.join("\n");
    let parsed = parse_input(&text, o);
    let describe = || json!({"operation": op_def, "options": o.args(), "input_shape": label, "input_head": text.chars().take(300).collect::<String>(), "status": run.status, "stderr_head": run.stderr.chars().take(200).collect::<String>(), "stdout_head": run.stdout.chars().take(300).collect::<String>()});
    if run.status.is_none() || run.status == Some(101) || run.stderr.contains("panicked at") {
        let msg = run.stderr.lines().find(|l| l.contains("panicked at")).unwrap_or("").to_string();
        let loc = run.stderr.lines().skip_while(|l| !l.contains("panicked at")).nth(1).unwrap_or("").trim().chars().take(60).collect::<String>();
        rep.violation(&format!("kp panics or is killed ({}) / {key_class}", panic_class(&format!("{}: {}", msg.split("at ").nth(1).unwrap_or("").trim_end_matches(':'), loc))), describe());
        return;
    }
    let tuples: Vec<[f64; 4]> = parsed.iter().map(|p| p.0).collect();
    let want = match expected_values(op_def, o, &tuples) {
        Err(_) => {
            // invalid operation: error message and non-zero status
            if run.status == Some(0) || run.stderr.trim().is_empty() {
                rep.violation(&format!("invalid operation does not end with an error message and non-zero status / {key_class}"), describe());
            }
            return;
        }
        Ok(w) => w,
    };
    if run.status != Some(0) {
        rep.violation(&format!("valid operation and readable input end with a non-zero status / {key_class}"), describe());
        return;
    }
    let lines: Vec<&str> = run.stdout.lines().collect();
    if lines.len() != parsed.len() {
        rep.violation(&format!("not exactly one output line per coordinate line / {key_class}"), {
            let mut d = describe();
            d["coordinate_lines"] = json!(parsed.len());
            d["output_lines"] = json!(lines.len());
            d
        });
        return;
    }
    // without -d the number of decimals is kp's own choice, but it must not change at an internal batch boundary
    if o.d.is_none() && lines.len() > 25_000 {
        let decimals = |l: &str| l.split_whitespace().next().and_then(|t| t.split_once('.')).map(|x| x.1.len()).unwrap_or(0);
        let first = decimals(lines[0]);
        if let Some(k) = lines.iter().position(|l| decimals(l) != first) {
            rep.violation(&format!("the number of printed decimals changes at an internal batch boundary / {key_class}"), {
                let mut d = describe();
                d["first_line"] = json!(lines[0]);
                d["line_index"] = json!(k);
                d["line"] = json!(lines[k]);
                d
            });
            return;
        }
    }
    let homogeneous = parsed.windows(2).all(|w| w[0].1 == w[1].1);
    // without -D the output dimension is kp's own estimate, but it must be ONE estimate: the same for every line,
    // wherever the internal batch boundaries fall
    if o.dim.is_none() && !homogeneous {
        let cols = |l: &str| l.split_whitespace().count();
        if let Some(k) = lines.iter().position(|l| cols(l) != cols(lines[0])) {
            rep.violation(&format!("the number of printed columns changes within one run (at an internal batch boundary) / {key_class}"), {
                let mut d = describe();
                d["first_line"] = json!(lines[0]);
                d["line_index"] = json!(k);
                d["line"] = json!(lines[k]);
                d
            });
            return;
        }
        // ... and the estimate itself must not depend on the batches: it is what the same input gives when it
        // fits into one batch, i.e. the largest number of columns of any line
        let widest = parsed.iter().map(|p| p.1).max().unwrap_or(0);
        if !lines.is_empty() && cols(lines[0]) != widest {
            rep.violation(&format!("the estimated output dimension depends on the internal batches (columns first seen after the first batch are dropped) / {key_class}"), {
                let mut d = describe();
                d["printed_columns"] = json!(cols(lines[0]));
                d["widest_input_line"] = json!(widest);
                d["lines"] = json!(lines.len());
                d
            });
            return;
        }
    }
    let conflicts = line_conflicts(&text, o);
    let mut h = 0u64;
    for (i, (line, w)) in lines.iter().zip(want.iter()).enumerate() {
        let toks: Vec<&str> = line.split_whitespace().collect();
        // dimension: requested, or (homogeneous input) the number of input columns
        let dim = match o.dim {
            Some(0) => Some(4),
            Some(d) => Some(d.min(4)),
            None if homogeneous => Some(parsed[i].1),
            None => None,
        };
        if let Some(d) = dim {
            if toks.len() != d {
                rep.violation(&format!("output is not cut to the requested dimension / {key_class}"), {
                    let mut dd = describe();
                    dd["line"] = json!(i);
                    dd["expected_columns"] = json!(d);
                    dd["output_line"] = json!(line);
                    dd
                });
                return;
            }
        }
        if o.roundtrip && w.iter().take(2).any(|x| x.is_nan()) {
            continue; // the residuals of a tuple that fails are not specified — those of its neighbours are
        }
        for (k, tok) in toks.iter().enumerate() {
            // elements that depend on a height/time given both in the line and by -z/-t are not judged
            if conflicts && !matches!(op_def, "addone") {
                continue;
            }
            if conflicts && k >= 2 {
                continue;
            }
            let ok = match o.d {
                Some(d) => *tok == format!("{:.1$}", w[k], d),
                None => match tok.parse::<f64>() {
                    Ok(v) => (v.is_nan() && w[k].is_nan()) || (v - w[k]).abs() <= 1e-5 + 1e-9 * w[k].abs(),
                    Err(_) => false,
                },
            };
            if !ok {
                rep.violation(&format!("printed number is not the library's result rounded to the requested decimals / {key_class}"), {
                    let mut dd = describe();
                    dd["line"] = json!(i);
                    dd["column"] = json!(k);
                    dd["printed"] = json!(tok);
                    dd["library"] = json!(format!("{:?}", w[k]));
                    dd["input_tuple"] = json!(format!("{:?}", parsed[i].0));
                    dd
                });
                return;
            }
        }
        if i < 3 {
            h = hash_of(&(h, line));
        }
    }
    seen.lock().unwrap().insert(h);
}

pub fn run(tier: Tier) -> Report {
    let rep = Report::new("C20", tier, "exploration");
    rep.rule("complete product of --inv x -r x -z x -t x -d{-,0,3} x -D{-,1,2,3,4} (240 combinations) x 4 operations x 8 input shapes (empty, comments only, one line, mixed 1-4 columns with \
              comments and sexagesimal values, homogeneous 2/3/4 columns, two files, missing file, extra columns), plus 5 batch sizes around the internal batch of 25000 x 8 option sets x 2 \
              operations; every run of the real kp binary is compared with the in-process library result formatted by the harness. distinct_nontrivial = distinct output heads");
    rep.assume("where a line gives a height/time AND -z/-t is given, and where -d is absent (heuristic number of decimals), numbers are compared numerically or not at all; the dimension is judged where -D is given or the input is homogeneous");
    if !kp_path().exists() {
        rep.machinery_error(format!("kp binary not built: {:?}", kp_path()));
        return rep;
    }
    let wd = crate::util::enter_private_workdir();
    crate::catalog::install_grids(&wd);
    let mut optsets: Vec<Opts> = Vec::new();
    for inv in [false, true] {
        for roundtrip in [false, true] {
            for z in [None, Some(10.)] {
                for t in [None, Some(2020.)] {
                    for d in [None, Some(0), Some(3)] {
                        for dim in [None, Some(1), Some(2), Some(3), Some(4)] {
                            optsets.push(Opts { inv, roundtrip, z, t, d, dim });
                        }
                    }
                }
            }
        }
    }
    let operations = ["geo:in | utm zone=32", "addone", "helmert x=0.1 y=0.2 z=0.3 dx=0.01 dy=0.02 dz=0.03 t_epoch=2000", "nosuch x=1"];
    let shapes: Vec<(&str, Vec<String>)> = vec![
        ("empty", vec!["".into()]),
        ("comments and blank lines only", vec!["# a comment\n\n   \n# another\n".into()]),
        ("one line, 2 columns", vec!["55 12\n".into()]),
        ("mixed 1-4 columns, comments, sexagesimal", vec!["# header\n55 12\n\n55:30:36N 12:45:36E 100   # trailing comment\n-33.5\n59 18 20 2001.5\n  1:30 2:15 3   \n".into()]),
        ("sexagesimal signs and hemispheres, zero degrees", vec!["-0:30:00 55:30:36\n0:30:00W 55:30:36N\n-0:15 -0:00:30\n0:45S 0:00:01.5E\n-1:30:36 +1:30:36\n12.5W 7.25S\n".into()]),
        ("comments glued to values", vec!["55 12#glued comment\n56 13 # spaced comment\n#whole line\n57 14# another\n".into()]),
        ("failing tuples between valid ones", vec!["55 12\n0 99.9\n56 13\nNaN 12\n57 14\n".into()]),
        ("homogeneous 3 columns", vec!["55 12 100\n56 13 0\n-33.9 151.2 -5.5\n".into()]),
        ("homogeneous 4 columns", vec!["55 12 100 2001\n56 13 0 2010.5\n".into()]),
        ("two files", vec!["55 12\n56 13\n".into(), "# second file\n57 14\n58 15\n".into()]),
        ("extra columns", vec!["55 12 100 2001 7\n56 13 0 2010.5 8 9 10\n".into()]),
    ];
    // negative values of -z / -t (written as separate arguments, as a user would)
    optsets.push(Opts { inv: false, roundtrip: false, z: Some(-30.), t: None, d: Some(3), dim: Some(3) });
    optsets.push(Opts { inv: true, roundtrip: false, z: Some(-30.5), t: Some(-1000.25), d: Some(3), dim: Some(4) });
    let seen = Mutex::new(HashSet::new());
    let (nops, nshapes) = (operations.len(), shapes.len());
    let jobs: Vec<(usize, usize, usize)> = (0..optsets.len()).flat_map(|o| (0..nops).flat_map(move |p| (0..nshapes).map(move |s| (o, p, s)))).collect();
    par_range(jobs.len(), |j| {
        let (oi, pi, si) = jobs[j];
        let (o, op_def, (label, files)) = (&optsets[oi], operations[pi], &shapes[si]);
        // files are written per job (names unique per job)
        let mut args = o.args();
        args.push(op_def.to_string());
        let mut paths = Vec::new();
        for (k, content) in files.iter().enumerate() {
            let p = wd.join(format!("in_{j}_{k}.txt"));
            std::fs::write(&p, content).unwrap();
            paths.push(p);
        }
        // single file inputs alternate between a file argument and stdin
        let via_stdin = files.len() == 1 && j % 2 == 0;
        if !via_stdin {
            args.extend(paths.iter().map(|p| p.to_string_lossy().to_string()));
        }
        rep.eval(1);
        match run_kp(&wd, &args, if via_stdin { Some(&files[0]) } else { None }) {
            Ok(run) => judge(&rep, label, op_def, o, files, &run, &format!("{label}{}", if o.roundtrip { " (roundtrip)" } else { "" }), &seen),
            Err(e) => rep.machinery_error(e),
        }
        for p in paths {
            let _ = std::fs::remove_file(p);
        }
    });
    // spellings of the option values: every way a real (for -z / -t) and a count (for -d) can be written
    // as a separate argument
    for (flag, dim, col) in [("-z", "3", 2usize), ("-t", "4", 3usize)] {
        for sp in ["0", "7", "+2.5", "-3", "-0.5", "-.5", "-5.", "1e3", "-1e3", "-1e-3", "-1.5e-3", "-1E-3", "-1e+3", "-12345.678"] {
            let args: Vec<String> = [flag, sp, "-d", "6", "-D", dim, "addone"].iter().map(|s| s.to_string()).collect();
            rep.eval(1);
            let want: f64 = sp.parse().unwrap();
            match run_kp(&wd, &args, Some("1 2\n")) {
                Ok(run) => {
                    let got: Vec<f64> = run.stdout.split_whitespace().filter_map(|t| t.parse().ok()).collect();
                    if run.status != Some(0) || got.len() != col + 1 || (got[col] - want).abs() > 1e-6 || got[0] != 2. {
                        rep.violation(
                            &format!("the {flag} value is not used for the missing column / value written as a {} real", if sp.starts_with('-') { "negative" } else { "non-negative" }),
                            json!({"args": args, "input": "1 2", "status": run.status, "stdout": run.stdout.chars().take(200).collect::<String>(), "stderr_head": run.stderr.chars().take(200).collect::<String>()}),
                        );
                    }
                }
                Err(e) => rep.machinery_error(e),
            }
        }
    }
    for d in [0usize, 1, 17, 400, 65535, 65536, 100000] {
        let args: Vec<String> = ["-d", &d.to_string(), "-D", "2", "addone"].iter().map(|s| s.to_string()).collect();
        rep.eval(1);
        match run_kp(&wd, &args, Some("1 2\n3 4\n")) {
            Ok(run) => {
                let lines: Vec<Vec<f64>> = run.stdout.lines().map(|l| l.split_whitespace().filter_map(|t| t.parse().ok()).collect()).collect();
                if run.status != Some(0) || lines != vec![vec![2., 2.], vec![4., 4.]] {
                    rep.violation(
                        "requested number of decimals not honoured (or no orderly end) / -d value",
                        json!({"args": args, "input": "1 2\n3 4", "status": run.status, "stdout_head": run.stdout.chars().take(100).collect::<String>(), "stderr_head": run.stderr.chars().take(200).collect::<String>()}),
                    );
                } else if d <= 400 {
                    // exactly d decimals
                    let first = run.stdout.split_whitespace().next().unwrap_or("");
                    let decimals = first.split('.').nth(1).map(|f| f.len()).unwrap_or(0);
                    if decimals != d {
                        rep.violation("requested number of decimals not honoured (or no orderly end) / -d value", json!({"args": args, "first_number": first}));
                    }
                }
            }
            Err(e) => rep.machinery_error(e),
        }
    }
    // unreadable input: error message and non-zero status — for every way a file can be unreadable
    // (does not exist; opens but cannot be read: a directory; readable up to a line that is not UTF-8),
    // alone and as the second of two files
    let good = wd.join("readable.txt");
    std::fs::write(&good, "55 12\n56 13\n").unwrap();
    let bad_utf8 = wd.join("not_utf8.txt");
    std::fs::write(&bad_utf8, b"55 12\n56 \xff\xfe 13\n57 14\n").unwrap();
    let a_dir = wd.join("a_directory");
    let _ = std::fs::create_dir_all(&a_dir);
    for op_def in [operations[0], operations[1]] {
        for (kind, path) in [("missing file", wd.join("no_such_file.txt")), ("directory", a_dir.clone()), ("line that is not UTF-8", bad_utf8.clone())] {
            for second in [false, true] {
                rep.eval(1);
                let mut args = vec![op_def.to_string()];
                if second {
                    args.push(good.to_string_lossy().to_string());
                }
                args.push(path.to_string_lossy().to_string());
                if let Ok(run) = run_kp(&wd, &args, None) {
                    if run.status == Some(0) || run.stderr.trim().is_empty() || run.status == Some(101) || run.status.is_none() {
                        rep.violation(
                            &format!("unreadable file does not end with an error message and a (non-panic) non-zero status / {kind}"),
                            json!({"operation": op_def, "unreadable": kind, "as_second_file": second, "status": run.status, "stderr": run.stderr.chars().take(200).collect::<String>(), "stdout": run.stdout.chars().take(200).collect::<String>()}),
                        );
                    }
                }
            }
        }
    }
    // the batch axis: results must not depend on the internal batches, nor on how the input is spread over files
    let batch_opts: Vec<Opts> = vec![
        Opts { inv: false, roundtrip: false, z: None, t: None, d: Some(3), dim: Some(2) },
        Opts { inv: false, roundtrip: false, z: None, t: None, d: None, dim: None },
        Opts { inv: true, roundtrip: false, z: Some(10.), t: Some(2020.), d: Some(1), dim: Some(4) },
        Opts { inv: false, roundtrip: true, z: None, t: None, d: Some(6), dim: Some(3) },
    ];
    let sizes: Vec<usize> = match tier {
        Tier::Quick => vec![24_999, 25_000, 25_001, 50_000],
        Tier::Thorough => vec![1, 24_999, 25_000, 25_001, 49_999, 50_000, 50_001, 75_000],
    };
    let nbo = batch_opts.len();
    let bjobs: Vec<(usize, usize, usize)> = (0..sizes.len()).flat_map(|s| (0..nbo).flat_map(move |o| (0..2usize).map(move |p| (s, o, p)))).collect();
    par_range(bjobs.len(), |j| {
        let (si, oi, pi) = bjobs[j];
        let n = sizes[si];
        let o = &batch_opts[oi];
        let op_def = operations[pi];
        // values straddle 1000 so that the decimals heuristic, if per batch, shows
        let mut text = String::with_capacity(n * 24);
        for i in 0..n {
            // for addone the first coordinate crosses 1000 exactly at the internal batch boundary
            let lat = 40. + (i % 2000) as f64 * 0.01 + if op_def == "addone" && i >= 25_000 { 2000. } else { 0. };
            let lon = 5. + (i % 700) as f64 * 0.01;
            text.push_str(&format!("{lat:.2} {lon:.2}\n"));
        }
        // spread over two files at an odd boundary
        let cut = text.char_indices().filter(|(_, c)| *c == '\n').nth(n / 3).map(|(i, _)| i + 1).unwrap_or(text.len());
        let (a, b) = text.split_at(cut);
        let (pa, pb) = (wd.join(format!("batch_{j}_a.txt")), wd.join(format!("batch_{j}_b.txt")));
        std::fs::write(&pa, a).unwrap();
        std::fs::write(&pb, b).unwrap();
        let mut args = o.args();
        args.push(op_def.to_string());
        args.push(pa.to_string_lossy().to_string());
        args.push(pb.to_string_lossy().to_string());
        rep.eval(1);
        match run_kp(&wd, &args, None) {
            Ok(run) => judge(&rep, &format!("{n} lines in two files"), op_def, o, &[text.clone()], &run, &format!("batch axis{}", if n % 25_000 == 0 { " (a multiple of 25000 lines)" } else { "" }), &seen),
            Err(e) => rep.machinery_error(e),
        }
        let _ = std::fs::remove_file(pa);
        let _ = std::fs::remove_file(pb);
    });
    // mixed column counts across the internal batch boundary: one line with a third column, first or at index 25000
    for (wide_at, label) in [(0usize, "wide line first"), (25_000, "wide line first of the second batch"), (25_003, "wide line last")] {
        for op_def in [operations[0], operations[1]] {
            let n = 25_004;
            let mut text = String::with_capacity(n * 24);
            for i in 0..n {
                let lat = 40. + (i % 2000) as f64 * 0.01;
                let lon = 5. + (i % 700) as f64 * 0.01;
                if i == wide_at {
                    text.push_str(&format!("{lat:.2} {lon:.2} 100\n"));
                } else {
                    text.push_str(&format!("{lat:.2} {lon:.2}\n"));
                }
            }
            let pa = wd.join(format!("mixed_{wide_at}.txt"));
            std::fs::write(&pa, &text).unwrap();
            let o = Opts { inv: false, roundtrip: false, z: None, t: None, d: Some(3), dim: None };
            let mut args = o.args();
            args.push(op_def.to_string());
            args.push(pa.to_string_lossy().to_string());
            rep.eval(1);
            match run_kp(&wd, &args, None) {
                Ok(run) => judge(&rep, &format!("25004 lines, {label}"), op_def, &o, &[text.clone()], &run, "batch axis (mixed column counts)", &seen),
                Err(e) => rep.machinery_error(e),
            }
            let _ = std::fs::remove_file(pa);
        }
    }
    rep.set("option_combinations", json!(optsets.len()));
    rep.set("invocations", json!(jobs.len() + bjobs.len() + 2));
    rep.sample(json!({"args": optsets[77].args(), "operation": operations[0], "input": shapes[3].1}));
    rep.sample(json!({"args": batch_opts[0].args(), "operation": operations[1], "lines": 25000}));
    let o = seen.into_inner().unwrap();
    rep.nontrivial_bulk(&o);
    rep.outcomes_bulk(&o);
    crate::util::leave_private_workdir(&wd);
    rep
}
