use crate::engine::{Report, Tier};

pub mod c01;
pub mod c02;
pub mod c03;
pub mod c04;
pub mod c05;
pub mod c06;
pub mod c07;
pub mod c08;
pub mod c09;
pub mod c10;
pub mod c11;
pub mod c12;
pub mod c13;
pub mod c14;
pub mod c15;
pub mod c16;
pub mod c17;
pub mod c18;
pub mod c19;
pub mod c20;

pub fn run(id: &str, tier: Tier) -> Option<Report> {
    Some(match id {
        "C01" => c01::run(tier),
        "C02" => c02::run(tier),
        "C03" => c03::run(tier),
        "C04" => c04::run(tier),
        "C05" => c05::run(tier),
        "C06" => c06::run(tier),
        "C07" => c07::run(tier),
        "C08" => c08::run(tier),
        "C09" => c09::run(tier),
        "C10" => c10::run(tier),
        "C11" => c11::run(tier),
        "C12" => c12::run(tier),
        "C13" => c13::run(tier),
        "C14" => c14::run(tier),
        "C15" => c15::run(tier),
        "C16" => c16::run(tier),
        "C17" => c17::run(tier),
        "C18" => c18::run(tier),
        "C19" => c19::run(tier),
        "C20" => c20::run(tier),
        _ => return None,
    })
}

pub fn worker(kind: &str) -> ! {
    match kind {
        "c04" => crate::engine::worker_main(c04::worker_subject),
        "c09" => crate::engine::worker_main(c09::worker_subject),
        "c15" => crate::engine::worker_main(c15::worker_subject),
        _ => {
            eprintln!("unknown worker kind {kind}");
            std::process::exit(2)
        }
    }
}

/// Re-run exactly one recorded case, without any explorer
pub fn replay(path: &str) -> i32 {
    let Ok(text) = std::fs::read_to_string(path) else {
        eprintln!("cannot read {path}");
        return 2;
    };
    let Ok(v) = serde_json::from_str::<serde_json::Value>(&text) else {
        eprintln!("cannot parse {path}");
        return 2;
    };
    let id = v["property"].as_str().unwrap_or("");
    let case = &v["case"];
    let res = match id {
        "C03" => c03::replay(case),
        "C04" => c04::replay(case),
        "C11" => c11::replay(case),
        "C09" => c09::replay(case),
        "C12" => c12::replay(case),
        "C15" => c15::replay(case),
        "C16" => c16::replay(case),
        "C17" => c17::replay(case),
        "C18" => c18::replay(case),
        _ => {
            eprintln!("no replay for property {id}");
            return 2;
        }
    };
    match res {
        Ok(msg) => {
            println!("replay: property holds on this case: {msg}");
            0
        }
        Err(msg) => {
            println!("VIOLATION property={id} replay={path}");
            println!("  {msg}");
            1
        }
    }
}
