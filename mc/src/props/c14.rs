//! C14 — independent implementations of the same quantity agree.
//! For each pair of routes: complete product over the common-domain lattice x shared parameter
//! values x ellipsoids, comparing two executions of the real code (or the real code against
//! closed forms / Gauss-Legendre quadrature for the series-based quantities).

use crate::catalog::*;
use crate::engine::*;
use crate::geo::*;
use geodesy::authoring::*;
use serde_json::json;
use std::collections::{BTreeMap, HashSet};
use std::f64::consts::FRAC_PI_2;
use std::sync::Mutex;

fn run_def<C: Context>(ctx: &mut C, def: &str, dir: Direction, data: &[C4]) -> Result<(usize, Vec<C4>), String> {
    match catch(|| {
        let op = ctx.op(def).map_err(|e| e.to_string())?;
        let mut d: Vec<Coor4D> = data.iter().map(|t| Coor4D(*t)).collect();
        let n = ctx.apply(op, dir, &mut d).map_err(|e| e.to_string())?;
        Ok::<_, String>((n, d.iter().map(|c| c.0).collect()))
    }) {
        Ok(r) => r,
        Err(p) => Err(format!("PANIC {p}")),
    }
}

fn ulps(a: f64, b: f64) -> f64 {
    if bits(a) == bits(b) {
        return 0.;
    }
    (a - b).abs() / (f64::EPSILON * a.abs().max(b.abs()).max(f64::MIN_POSITIVE))
}

fn tmerc_vs_btmerc(rep: &Report, ellipsoids: &[String], tier: Tier, worst: &Mutex<BTreeMap<String, f64>>) {
    let params = ["", "lat_0=3 lon_0=9 k_0=0.9996 x_0=500000 y_0=100", "lon_0=-70 lat_0=-45 k_0=1.0001 x_0=-1000 y_0=2000000", "lon_0=177 x_0=1"];
    let (lat_step, lon_step) = tier.pick((6., 0.75), (1., 0.25));
    for ellps in ellipsoids {
        let Some(ell) = ref_ellipsoid(ellps) else { continue };
        for (pi, par) in params.iter().enumerate() {
            let lon_0: f64 = par.split_whitespace().find_map(|t| t.strip_prefix("lon_0=")).map(|v| v.parse().unwrap()).unwrap_or(0.);
            let mut pts: Vec<C4> = Vec::new();
            for &lat in &lat_lattice(lat_step, 84.) {
                for &dl in &dlon_lattice(lon_step, 3.) {
                    pts.push([f64::to_radians(lon_0 + dl), lat.to_radians(), 0., 0.]);
                }
            }
            for (ta, tb) in [("tmerc", "btmerc"), ("utm", "butm")] {
                let (da, db) = if ta == "utm" {
                    if pi > 1 {
                        continue;
                    }
                    let z = if pi == 0 { "zone=32" } else { "zone=60 south" };
                    let zl = if pi == 0 { 9. } else { 177. };
                    pts = pts.iter().map(|p| [p[0] - lon_0.to_radians() + f64::to_radians(zl), p[1], 0., 0.]).collect();
                    (format!("utm {z} ellps={ellps}"), format!("butm {z} ellps={ellps}"))
                } else {
                    (format!("tmerc {par} ellps={ellps}"), format!("btmerc {par} ellps={ellps}"))
                };
                let mut ctx = Minimal::default();
                let (Ok((_, fa)), Ok((_, fb))) = (run_def(&mut ctx, &da, Fwd, &pts), run_def(&mut ctx, &db, Fwd, &pts)) else {
                    rep.violation(&format!("{ta} or {tb} fails on the common domain"), json!({"a": da, "b": db}));
                    continue;
                };
                rep.eval(pts.len() as u64);
                let mut w = 0f64;
                for ((p, a), b) in pts.iter().zip(fa.iter()).zip(fb.iter()) {
                    let d = (a[0] - b[0]).hypot(a[1] - b[1]);
                    w = w.max(d);
                    if !(d <= 1e-3) {
                        rep.violation(&format!("{ta} and {tb} differ by more than 1 mm within 3 degrees of the central meridian (forward)"), json!({"a": da, "b": db, "lon_deg": p[0].to_degrees(), "lat_deg": p[1].to_degrees(), "a_gives": a, "b_gives": b, "distance_m": d}));
                        break;
                    }
                }
                // inverse of both on the image of the rigorous one
                if let (Ok((_, ia)), Ok((_, ib))) = (run_def(&mut ctx, &da, Inv, &fa), run_def(&mut ctx, &db, Inv, &fa)) {
                    for ((p, a), b) in pts.iter().zip(ia.iter()).zip(ib.iter()) {
                        let d = ell.ground(a[0], a[1], b[0], b[1]);
                        w = w.max(d);
                        if !(d <= 1e-3) {
                            rep.violation(&format!("{ta} and {tb} differ by more than 1 mm within 3 degrees of the central meridian (inverse)"), json!({"a": da, "b": db, "lon_deg": p[0].to_degrees(), "lat_deg": p[1].to_degrees(), "a_gives": a, "b_gives": b, "distance_m": d}));
                            break;
                        }
                    }
                }
                let mut wm = worst.lock().unwrap();
                let e = wm.entry(format!("{ta} vs {tb} (m)")).or_insert(0.);
                *e = e.max(w);
            }
        }
    }
}

fn operators_vs_methods(rep: &Report, ellipsoids: &[String], tier: Tier, worst: &Mutex<BTreeMap<String, f64>>) {
    let lats = lat_lattice(tier.pick(7.5, 1.), 90.);
    let lons = dlon_lattice(tier.pick(45., 15.), 180.);
    for ellps in ellipsoids {
        let Ok(e) = Ellipsoid::named(ellps) else { continue };
        let ell = Ell { a: e.semimajor_axis(), f: e.flattening() };
        let mut ctx = Minimal::default();
        // cart
        let mut geo: Vec<C4> = Vec::new();
        for &lat in &lats {
            for &lon in &lons {
                for h in [-10_000., 0., 8848., 100_000.] {
                    geo.push([lon.to_radians(), lat.to_radians(), h, 2020.]);
                }
            }
        }
        if let Ok((_, out)) = run_def(&mut ctx, &format!("cart ellps={ellps}"), Fwd, &geo) {
            rep.eval(geo.len() as u64);
            let mut w = 0f64;
            for (g, o) in geo.iter().zip(out.iter()) {
                let m = e.cartesian(&Coor4D(*g));
                if bits4(m.0) != bits4(*o) {
                    rep.violation("cart operator forward is not identical to Ellipsoid::cartesian", json!({"ellps": ellps, "input": g, "operator": o, "method": m.0}));
                    break;
                }
                let back_method = e.geographic(&m);
                let mut d = [Coor4D(*o)];
                let op = ctx.op(&format!("cart ellps={ellps}")).unwrap();
                let _ = ctx.apply(op, Inv, &mut d);
                let dist = ell.ground(back_method[0], back_method[1], d[0][0], d[0][1]).max((back_method[2] - d[0][2]).abs());
                w = w.max(dist);
                if !(dist <= 1e-3) {
                    rep.violation("cart operator inverse and Ellipsoid::geographic differ by more than 1 mm (h <= 100 km)", json!({"ellps": ellps, "input": g, "operator": d[0].0, "method": back_method.0, "distance_m": dist}));
                    break;
                }
            }
            // next to the polar axis (both routes have a shortcut for points ON the axis): cartesian points a tenth of a
            // millimetre to ten metres from it, either hemisphere
            let b = ell.a * (1. - ell.f);
            let op = ctx.op(&format!("cart ellps={ellps}")).unwrap();
            for p_axis in [1e-4, 1e-3, 2e-3, 3.9e-3, 5e-3, 0.1, 10.] {
                for z in [b, -b, b + 100_000., -b - 8848., b - 10_000.] {
                    for (cx, cy) in [(p_axis, 0.), (0., -p_axis), (p_axis * 0.6, p_axis * 0.8)] {
                        rep.eval(1);
                        let xyz = Coor4D([cx, cy, z, 2020.]);
                        let back_method = e.geographic(&xyz);
                        let mut d = [xyz];
                        let _ = ctx.apply(op, Inv, &mut d);
                        let dist = ell.ground(back_method[0], back_method[1], d[0][0], d[0][1]).max((back_method[2] - d[0][2]).abs());
                        w = w.max(dist);
                        if !(dist <= 1e-3) {
                            rep.violation(
                                "cart operator inverse and Ellipsoid::geographic differ by more than 1 mm (h <= 100 km) / next to the polar axis",
                                json!({"ellps": ellps, "cartesian_input": xyz.0, "distance_from_axis_m": p_axis, "operator": d[0].0, "method": back_method.0, "distance_m": dist}),
                            );
                        }
                    }
                }
            }
            let mut wm = worst.lock().unwrap();
            let en = wm.entry("cart operator inverse vs Ellipsoid::geographic (m)".into()).or_insert(0.);
            *en = en.max(w);
        }
        // latitude operators vs methods (to rounding: 2 ulp)
        let rect = e.coefficients_for_rectifying_latitude_computations();
        let conf = e.coefficients_for_conformal_latitude_computations();
        let auth = e.coefficients_for_authalic_latitude_computations();
        type M<'a> = Box<dyn Fn(f64) -> f64 + 'a>;
        let kinds: Vec<(&str, M, M)> = vec![
            ("geocentric", Box::new(|p| e.latitude_geographic_to_geocentric(p)), Box::new(|p| e.latitude_geocentric_to_geographic(p))),
            ("reduced", Box::new(|p| e.latitude_geographic_to_reduced(p)), Box::new(|p| e.latitude_reduced_to_geographic(p))),
            ("parametric", Box::new(|p| e.latitude_geographic_to_reduced(p)), Box::new(|p| e.latitude_reduced_to_geographic(p))),
            ("conformal", Box::new(|p| e.latitude_geographic_to_conformal(p, &conf)), Box::new(|p| e.latitude_conformal_to_geographic(p, &conf))),
            ("authalic", Box::new(|p| e.latitude_geographic_to_authalic(p, &auth)), Box::new(|p| e.latitude_authalic_to_geographic(p, &auth))),
            ("rectifying", Box::new(|p| e.latitude_geographic_to_rectifying(p, &rect)), Box::new(|p| e.latitude_rectifying_to_geographic(p, &rect))),
        ];
        let pts: Vec<C4> = lats.iter().map(|l| [0.3, l.to_radians(), 12., 2000.]).collect();
        for (kind, f, g) in &kinds {
            for (dir, m) in [(Fwd, f), (Inv, g)] {
                let dn = if dir == Fwd { "fwd" } else { "inv" };
                match run_def(&mut ctx, &format!("latitude {kind} ellps={ellps}"), dir, &pts) {
                    Ok((n, out)) => {
                        rep.eval(pts.len() as u64);
                        for (p, o) in pts.iter().zip(out.iter()) {
                            let want = m(p[1]);
                            if ulps(o[1], want) > 2. || bits(o[0]) != bits(p[0]) || bits(o[2]) != bits(p[2]) || n != pts.len() {
                                rep.violation(&format!("latitude operator differs from the ellipsoid method / {kind} {dn}"), json!({"ellps": ellps, "input": p, "operator": o, "method": want}));
                                break;
                            }
                        }
                    }
                    Err(er) => rep.violation(&format!("latitude operator fails / {kind}"), json!({"ellps": ellps, "error": er})),
                }
            }
        }
        // curvature operators: input (lat, lon) in degrees
        let degs: Vec<C4> = lats.iter().map(|l| [*l, 37.5, 0., 0.]).collect();
        type K<'a> = Box<dyn Fn(f64) -> f64 + 'a>;
        let curv: Vec<(&str, K)> = vec![
            ("prime", Box::new(|p| e.prime_vertical_radius_of_curvature(p))),
            ("meridian", Box::new(|p| e.meridian_radius_of_curvature(p))),
            ("gaussian", Box::new(|p| (e.prime_vertical_radius_of_curvature(p) * e.meridian_radius_of_curvature(p)).sqrt())),
            ("mean", Box::new(|p| 2. / (1. / e.prime_vertical_radius_of_curvature(p) + 1. / e.meridian_radius_of_curvature(p)))),
        ];
        for (kind, m) in &curv {
            match run_def(&mut ctx, &format!("curvature {kind} ellps={ellps}"), Fwd, &degs) {
                Ok((_, out)) => {
                    rep.eval(degs.len() as u64);
                    for (p, o) in degs.iter().zip(out.iter()) {
                        let want = m(p[0].to_radians());
                        if ulps(o[0], want) > 4. {
                            rep.violation(&format!("curvature operator differs from the ellipsoid method / {kind}"), json!({"ellps": ellps, "input": p, "operator": o, "method": want}));
                            break;
                        }
                    }
                }
                Err(er) => rep.violation(&format!("curvature operator fails / {kind}"), json!({"ellps": ellps, "error": er})),
            }
        }
        // azimuthal curvature: (lat, azimuth) degrees
        let az: Vec<C4> = lats.iter().flat_map(|l| [0., 30., 90., 225.].map(|a| [*l, a, 0., 0.])).collect();
        if let Ok((_, out)) = run_def(&mut ctx, &format!("curvature azimuthal ellps={ellps}"), Fwd, &az) {
            rep.eval(az.len() as u64);
            for (p, o) in az.iter().zip(out.iter()) {
                let (lat, a) = (p[0].to_radians(), p[1].to_radians());
                let want = 1. / (a.cos().powi(2) / e.meridian_radius_of_curvature(lat) + a.sin().powi(2) / e.prime_vertical_radius_of_curvature(lat));
                if ulps(o[0], want) > 8. {
                    rep.violation("curvature operator differs from the ellipsoid method / azimuthal", json!({"ellps": ellps, "input": p, "operator": o, "expected": want}));
                    break;
                }
            }
        }
        // gravity operators: (lat degrees, height)
        let gr: Vec<C4> = lats.iter().flat_map(|l| [0., 100., 8848.].map(|h| [*l, h, 0., 0.])).collect();
        type G<'a> = Box<dyn Fn(f64, f64) -> f64 + 'a>;
        let grav: Vec<(&str, G)> = vec![
            ("welmec", Box::new(|p, h| e.welmec(p, h))),
            ("grs80", Box::new(|p, h| e.grs80_gravity(p) - e.grs67_height_correction(p, h))),
            ("grs67", Box::new(|p, h| e.grs67_gravity(p) - e.grs67_height_correction(p, h))),
            ("jeffreys", Box::new(|p, h| e.jeffreys_gravity_1948(p) - e.cassinis_height_correction(h, 2800.))),
            ("cassinis", Box::new(|p, h| e.cassinis_gravity_1930(p) - e.cassinis_height_correction(h, 2800.))),
        ];
        for (kind, m) in &grav {
            // (with the zero-height flag the operator gives the value of the method on the ellipsoid, whatever the
            // height element holds)
            for flag in ["", " zero-height"] {
                match run_def(&mut ctx, &format!("gravity {kind}{flag} ellps={ellps}"), Fwd, &gr) {
                    Ok((_, out)) => {
                        rep.eval(gr.len() as u64);
                        for (p, o) in gr.iter().zip(out.iter()) {
                            let want = m(p[0].to_radians(), if flag.is_empty() { p[1] } else { 0. });
                            if ulps(o[0], want) > 4. {
                                rep.violation(&format!("gravity operator differs from the ellipsoid method / {kind}{flag}"), json!({"ellps": ellps, "input": p, "operator": o, "method": want}));
                                break;
                            }
                        }
                    }
                    Err(er) => rep.violation(&format!("gravity operator fails / {kind}{flag}"), json!({"ellps": ellps, "error": er})),
                }
            }
        }
        // geodesic operator vs methods
        let mut ga: Vec<C4> = Vec::new();
        for (la, lo) in [(55., 12.), (-33.9, 151.2), (0., 0.), (80.7, 179.9)] {
            for azi in [0.1, 45., 135., 225., 315.] {
                for s in [1000., 1e6, 1e7] {
                    ga.push([la, lo, azi, s]);
                }
            }
        }
        if let Ok((_, out)) = run_def(&mut ctx, &format!("geodesic ellps={ellps}"), Fwd, &ga) {
            rep.eval(ga.len() as u64);
            for (p, o) in ga.iter().zip(out.iter()) {
                let d = e.geodesic_fwd(&Coor2D::geo(p[0], p[1]), p[2].to_radians(), p[3]);
                if (o[0] - d[1].to_degrees()).abs() > 1e-12 || (o[1] - d[0].to_degrees()).abs() > 1e-12 {
                    rep.violation("geodesic operator (forward) differs from Ellipsoid::geodesic_fwd", json!({"ellps": ellps, "input": p, "operator": o, "method_deg": [d[1].to_degrees(), d[0].to_degrees()]}));
                    break;
                }
                // inverse operator on (origin, destination)
                let pair = [[p[0], p[1], o[0], o[1]]];
                if let Ok((_, inv)) = run_def(&mut ctx, &format!("geodesic ellps={ellps}"), Inv, &pair) {
                    let m = e.geodesic_inv(&Coor2D::geo(p[0], p[1]), &Coor2D::geo(o[0], o[1])).to_degrees();
                    if (inv[0][0] - m[0]).abs() > 1e-9 || (inv[0][2] - m[2]).abs() > 1e-6 {
                        rep.violation("geodesic operator (inverse) differs from Ellipsoid::geodesic_inv", json!({"ellps": ellps, "input": pair[0], "operator": inv[0], "method": m.0}));
                        break;
                    }
                }
            }
        }
    }
}

fn shared_mappings(rep: &Report) {
    let pairs: [(&str, &str); 13] = [
        ("axisswap order=2,1", "adapt from=neuf"),
        ("axisswap order=2,1,-3", "adapt from=nedf"),
        ("axisswap order=-1,-2,-3,-4", "adapt from=wsdp"),
        ("axisswap order=1,2,4,3", "adapt from=enfu"),
        ("axisswap order=3,1,2", "adapt to=uenf"),
        ("unitconvert xy_in=deg xy_out=rad", "adapt from=enuf_deg"),
        ("unitconvert xy_in=grad xy_out=rad", "adapt from=enuf_gon"),
        ("unitconvert xy_in=rad xy_out=deg", "adapt to=enuf_deg"),
        ("unitconvert xy_in=deg xy_out=rad | axisswap order=2,1", "adapt from=neuf_deg"),
        ("axisswap order=2,1 | unitconvert xy_in=rad xy_out=grad", "adapt to=neuf_gon"),
        ("unitconvert xy_in=deg xy_out=grad", "adapt from=enuf_deg to=enuf_gon"),
        ("unitconvert xy_in=grad xy_out=deg", "adapt from=enuf_gon to=enuf_deg"),
        ("unitconvert xy_in=deg xy_out=deg", "adapt from=enuf_deg to=enuf_deg"),
    ];
    // "exactly": the same bits, for a lattice of ordinary decimal values and a few extreme ones
    let mut data: Vec<C4> = vec![[1.2345678901234567, -2.718281828459045, 37.25, 2020.5], [-179.99999, 89.5, -1e-3, 0.], [1e-300, 1e300, 5e-324, -0.]];
    for k in 1..=400 {
        let k = k as f64;
        data.push([k * 0.1, -k / 7., k, 2000. + k]);
        data.push([k * 0.9, k * 0.45 - 90., -k, 2000. - k]);
    }
    for (a, b) in pairs {
        for dir in [Fwd, Inv] {
            let mut ctx = Minimal::default();
            rep.eval(1);
            let (d2, dname) = if dir == Fwd { (Fwd, "fwd") } else { (Inv, "inv") };
            let (ra, rb) = (run_def(&mut ctx, a, dir, &data), run_def(&mut ctx, b, d2, &data));
            let ok = match (&ra, &rb) {
                (Ok((na, oa)), Ok((nb, ob))) => na == nb && oa.iter().zip(ob.iter()).all(|(x, y)| (0..4).all(|i| x[i].to_bits() == y[i].to_bits() || (x[i] == 0. && y[i] == 0.))),
                _ => false,
            };
            if !ok {
                rep.violation(&format!("operators sharing a mapping disagree / {a} vs {b}"), {
                    let first = match (&ra, &rb) {
                        (Ok((_, oa)), Ok((_, ob))) => oa.iter().zip(ob.iter()).zip(data.iter()).find(|((x, y), _)| (0..4).any(|i| x[i].to_bits() != y[i].to_bits() && !(x[i] == 0. && y[i] == 0.))).map(|((x, y), d)| json!({"input": d, "a_gives": x, "b_gives": y})),
                        _ => None,
                    };
                    json!({"a": a, "b": b, "direction": dname, "first_difference": first, "a_result": format!("{ra:?}").chars().take(200).collect::<String>(), "b_result": format!("{rb:?}").chars().take(200).collect::<String>()})
                });
            }
        }
    }
}

/// The same mapping reached from the other side: X -> Y as the forward direction of one definition and as the inverse
/// direction of the opposite definition (of the same or of the other operator): the same bits
fn shared_mappings_across_directions(rep: &Report) {
    let pairs: [(&str, Direction, &str, Direction); 8] = [
        ("unitconvert xy_in=deg xy_out=rad", Fwd, "adapt to=enuf_deg", Inv),
        ("unitconvert xy_in=rad xy_out=deg", Inv, "adapt from=enuf_deg", Fwd),
        ("unitconvert xy_in=deg xy_out=rad", Fwd, "unitconvert xy_in=rad xy_out=deg", Inv),
        ("adapt to=enuf_deg", Fwd, "adapt inv from=enuf_deg", Fwd),
        ("adapt from=enuf_deg", Fwd, "adapt inv to=enuf_deg", Fwd),
        ("unitconvert xy_in=deg xy_out=grad", Fwd, "unitconvert xy_in=grad xy_out=deg", Inv),
        ("adapt from=enuf_deg to=enuf_gon", Fwd, "adapt from=enuf_gon to=enuf_deg", Inv),
        ("unitconvert xy_in=grad xy_out=rad", Fwd, "adapt from=neuf to=neuf_gon", Inv),
    ];
    let mut data: Vec<C4> = Vec::new();
    for k in 1..=400 {
        let k = k as f64;
        data.push([k * 0.1, -k / 7., k, 2000. + k]);
        data.push([k * 0.9, k * 0.45 - 90., -k, 2000. - k]);
    }
    for (a, da, b, db) in pairs {
        let mut ctx = Minimal::default();
        rep.eval(1);
        let (na, nb) = (if da == Fwd { "fwd" } else { "inv" }, if db == Fwd { "fwd" } else { "inv" });
        let (ra, rb) = (run_def(&mut ctx, a, da, &data), run_def(&mut ctx, b, db, &data));
        let first = match (&ra, &rb) {
            (Ok((ca, oa)), Ok((cb, ob))) if ca == cb => oa.iter().zip(ob.iter()).zip(data.iter()).find(|((x, y), _)| (0..4).any(|i| x[i].to_bits() != y[i].to_bits() && !(x[i] == 0. && y[i] == 0.))).map(|((x, y), d)| json!({"input": d, "a_gives": x, "b_gives": y})),
            _ => Some(json!("one of the two definitions fails")),
        };
        if let Some(first) = first {
            rep.violation(&format!("operators sharing a mapping disagree / {a} [{na}] vs {b} [{nb}]"), json!({"a": a, "a_direction": na, "b": b, "b_direction": nb, "first_difference": first}));
        }
    }
}

fn minimal_vs_plain(rep: &Report, outcomes: &Mutex<HashSet<u64>>) {
    for e in catalogue().iter().filter(|e| !e.needs_grids) {
        let data = tuple_alphabet(e.input);
        for dir in [Fwd, Inv] {
            if dir == Inv && !e.invertible {
                continue;
            }
            rep.eval(1);
            let d2 = if dir == Fwd { Fwd } else { Inv };
            let (a, b) = (run_def(&mut Minimal::new(), e.def, dir, &data), run_def(&mut Plain::new(), e.def, d2, &data));
            let ok = match (&a, &b) {
                (Ok((na, oa)), Ok((nb, ob))) => {
                    outcomes.lock().unwrap().insert(hash_of(&oa.iter().map(|c| bits4(*c)).collect::<Vec<_>>()));
                    na == nb && oa.iter().zip(ob.iter()).all(|(x, y)| bits4(*x) == bits4(*y))
                }
                _ => false,
            };
            if !ok {
                rep.violation(&format!("Minimal and Plain differ for a built-in definition / {}", e.def), json!({"def": e.def, "minimal": format!("{a:?}").chars().take(300).collect::<String>(), "plain": format!("{b:?}").chars().take(300).collect::<String>()}));
            }
        }
    }
}

fn series_vs_closed_forms(rep: &Report, ellipsoids: &[String], tier: Tier, worst: &Mutex<BTreeMap<String, f64>>) {
    let lats = lat_lattice(tier.pick(2.5, 0.25), 89.9);
    for ellps in ellipsoids {
        let Ok(e) = Ellipsoid::named(ellps) else { continue };
        let ell = Ell { a: e.semimajor_axis(), f: e.flattening() };
        let es = ell.es();
        let ecc = es.sqrt();
        let conf = e.coefficients_for_conformal_latitude_computations();
        let auth = e.coefficients_for_authalic_latitude_computations();
        let q = |phi: f64| -> f64 {
            let s = phi.sin();
            if ecc == 0. {
                return 2. * s;
            }
            (1. - es) * (s / (1. - es * s * s) - (1. / (2. * ecc)) * ((1. - ecc * s) / (1. + ecc * s)).ln())
        };
        let qp = q(FRAC_PI_2);
        let (mut wc, mut wa, mut wm, mut wi) = (0f64, 0f64, 0f64, 0f64);
        for &lat in &lats {
            let phi = lat.to_radians();
            rep.eval(3);
            let chi = e.latitude_geographic_to_conformal(phi, &conf);
            let chi_cf = (phi.tan().asinh() - ecc * (ecc * phi.sin()).atanh()).sinh().atan();
            wc = wc.max((chi - chi_cf).abs());
            if !((chi - chi_cf).abs() <= 1e-11) {
                rep.violation("series-based conformal latitude differs from the closed form by more than 1e-11 rad", json!({"ellps": ellps, "lat_deg": lat, "series": chi, "closed_form": chi_cf}));
            }
            let xi = e.latitude_geographic_to_authalic(phi, &auth);
            let xi_cf = (q(phi) / qp).clamp(-1., 1.).asin();
            wa = wa.max((xi - xi_cf).abs());
            if !((xi - xi_cf).abs() <= 1e-11) {
                rep.violation("series-based authalic latitude differs from the closed form by more than 1e-11 rad", json!({"ellps": ellps, "lat_deg": lat, "series": xi, "closed_form": xi_cf}));
            }
            let m = e.meridian_latitude_to_distance(phi);
            let m_q = ell.meridian_arc(phi);
            wm = wm.max((m - m_q).abs());
            if !((m - m_q).abs() <= 1e-6) {
                rep.violation("meridian arc differs from numerical quadrature by more than 1e-6 m", json!({"ellps": ellps, "lat_deg": lat, "library": m, "quadrature": m_q, "difference_m": (m - m_q).abs()}));
            }
            // ... and the other way round: the latitude reached by the quadrature's meridian arc
            let back = e.meridian_distance_to_latitude(m_q);
            wi = wi.max((back - phi).abs());
            if !((back - phi).abs() <= 1e-11) {
                rep.violation(
                    "latitude from meridian distance differs from the inverse of the quadrature by more than 1e-11 rad",
                    json!({"ellps": ellps, "lat_deg": lat, "meridian_arc_by_quadrature": m_q, "library_latitude_rad": back, "difference_rad": (back - phi).abs(), "difference_m": (back - phi).abs() * ell.a}),
                );
            }
        }
        {
            let mut w = worst.lock().unwrap();
            let en = w.entry("latitude from meridian distance vs quadrature (rad)".into()).or_insert(0.);
            *en = en.max(wi);
        }
        let mut w = worst.lock().unwrap();
        for (k, v) in [("conformal latitude series vs closed form (rad)", wc), ("authalic latitude series vs closed form (rad)", wa), ("meridian arc vs quadrature (m)", wm)] {
            let en = w.entry(k.into()).or_insert(0.);
            *en = en.max(v);
        }
    }
}

pub fn run(tier: Tier) -> Report {
    let rep = Report::new("C14", tier, "exploration");
    rep.rule("for each listed pair of routes: complete product over the common-domain lattice x shared parameter sets x ellipsoids, two executions of the real code compared \
              (tmerc/btmerc and utm/butm within 3 degrees; cart operator vs trait methods; latitude x6, curvature x5, gravity x5, geodesic operators vs methods; 10 shared \
              axisswap/unitconvert/adapt mappings; every non-grid catalogue definition through Minimal and Plain), plus series vs closed form / quadrature. \
              distinct_nontrivial = distinct Minimal/Plain result sets + lattice hashes");
    let ellipsoids: Vec<String> = match tier {
        Tier::Quick => vec!["GRS80".into(), "intl".into(), "bessel".into(), "sphere".into(), "mprts".into()],
        Tier::Thorough => crate::props::c01::ellipsoid_names(Tier::Thorough).into_iter().filter(|e| catch(|| Ellipsoid::named(e).is_ok()).unwrap_or(false)).collect(),
    };
    rep.set("ellipsoids", json!(ellipsoids));
    let wd = crate::util::enter_private_workdir();
    let worst = Mutex::new(BTreeMap::new());
    let outcomes = Mutex::new(HashSet::new());
    tmerc_vs_btmerc(&rep, &ellipsoids, tier, &worst);
    operators_vs_methods(&rep, &ellipsoids, tier, &worst);
    shared_mappings(&rep);
    shared_mappings_across_directions(&rep);
    minimal_vs_plain(&rep, &outcomes);
    series_vs_closed_forms(&rep, &ellipsoids, tier, &worst);
    crate::util::leave_private_workdir(&wd);
    rep.set("observed_maxima", json!(*worst.lock().unwrap()));
    rep.sample(json!({"pair": "tmerc vs btmerc", "parameters": "lat_0=3 lon_0=9 k_0=0.9996 x_0=500000 y_0=100", "domain": "|dlon| <= 3 deg, |lat| <= 84 deg"}));
    rep.sample(json!({"pair": "Minimal vs Plain", "definitions": catalogue().iter().filter(|e| !e.needs_grids).count()}));
    let mut o = outcomes.into_inner().unwrap();
    for k in 0..lat_lattice(tier.pick(2.5, 0.25), 89.9).len() {
        o.insert(hash_of(&("lattice", k)));
    }
    rep.nontrivial_bulk(&o);
    rep.outcomes_bulk(&o);
    rep
}
