//! C01 — the inverse direction undoes the forward direction for every invertible operator.
//!
//! Complete product: catalogue[invertible] x aspects x ellipsoids x fixed lattice (every special
//! point visible in the code plus a uniform step, clipped to the documented domain) x
//! {fwd->inv, inv->fwd} x wrapper form {plain, inv modifier, one-step pipeline, macro body,
//! inverted macro}. Oracle: ground distance between start and round-tripped tuple <= the accuracy
//! class taken from the property statement (10 um rigorous/exact, 1 mm btmerc/omerc/molodensky,
//! bit-exact for permutations, sign flips and dyadic translations).

use crate::engine::*;
use crate::geo::*;
use crate::projs::*;
use geodesy::authoring::*;
use serde_json::json;
use std::collections::HashSet;
use std::sync::Mutex;

pub type C4 = [f64; 4];

#[derive(Clone, Copy, Debug)]
pub enum Metric {
    /// (lon, lat) radians on the ellipsoid + |dh|
    Geo(Ell),
    /// only the latitude (second element) as an angle on the ellipsoid
    LatOnly(Ell),
    /// first three elements, metres
    Euclid3,
    /// first two elements, metres; third bit-identical
    Plane,
    /// (lat, lon) degrees + remaining two
    GeoDeg(Ell),
    /// all four bit-identical
    Exact,
    /// relative 1e-14 on every element (unit factors)
    Relative,
    /// third element in metres
    Height,
    /// first two elements Euclid (metres) and |dz|
    Plane3,
    /// first two elements, absolute difference times a scale (metres per unit); rest bit-identical
    #[allow(dead_code)]
    AbsXY(f64),
    /// ISO-6709 encodings (lat, lon) DDDMM.mmm (false) / DDDMMSS.sss (true): decoded, then ground distance
    Iso(Ell, bool),
    /// geodesic forward input: (lat deg, lon deg, azimuth deg, distance m)
    GeodesicArgs(Ell),
}

impl Metric {
    pub fn distance(&self, a: C4, b: C4) -> f64 {
        match self {
            Metric::Geo(e) => e.ground(a[0], a[1], b[0], b[1]).max((a[2] - b[2]).abs()),
            Metric::LatOnly(e) => (e.m(a[1]) * (a[1] - b[1])).abs().max((a[0] - b[0]).abs() * e.a).max((a[2] - b[2]).abs()),
            Metric::Euclid3 => ((a[0] - b[0]).powi(2) + (a[1] - b[1]).powi(2) + (a[2] - b[2]).powi(2)).sqrt(),
            Metric::Plane => (a[0] - b[0]).hypot(a[1] - b[1]).max(if bits(a[2]) == bits(b[2]) { 0. } else { f64::INFINITY }),
            Metric::GeoDeg(e) => e.ground(a[1].to_radians(), a[0].to_radians(), b[1].to_radians(), b[0].to_radians()).max((a[2] - b[2]).abs()).max((a[3] - b[3]).abs()),
            Metric::Exact => {
                if bits4(a) == bits4(b) {
                    0.
                } else {
                    f64::INFINITY
                }
            }
            Metric::Relative => (0..4).map(|i| if bits(a[i]) == bits(b[i]) { 0. } else { (a[i] - b[i]).abs() / a[i].abs().max(b[i].abs()).max(1e-300) }).fold(0., f64::max) * 1e14 * 1e-5,
            Metric::Height => (a[2] - b[2]).abs().max(if bits(a[0]) == bits(b[0]) && bits(a[1]) == bits(b[1]) { 0. } else { f64::INFINITY }),
            Metric::Plane3 => (a[0] - b[0]).hypot(a[1] - b[1]).max((a[2] - b[2]).abs()),
            Metric::AbsXY(scale) => ((a[0] - b[0]).abs().max((a[1] - b[1]).abs()) * scale).max(if bits(a[2]) == bits(b[2]) { 0. } else { f64::INFINITY }),
            Metric::Iso(e, dms) => {
                let dec = |x: f64| -> f64 {
                    let ax = x.abs();
                    let v = if *dms {
                        let d = (ax / 10000.).floor();
                        let m = ((ax - d * 10000.) / 100.).floor();
                        let s = ax - d * 10000. - m * 100.;
                        d + m / 60. + s / 3600.
                    } else {
                        let d = (ax / 100.).floor();
                        d + (ax - d * 100.) / 60.
                    };
                    v.copysign(x)
                };
                e.ground(dec(a[1]).to_radians(), dec(a[0]).to_radians(), dec(b[1]).to_radians(), dec(b[0]).to_radians()).max((a[2] - b[2]).abs())
            }
            Metric::GeodesicArgs(e) => {
                let pos = e.ground(a[1].to_radians(), a[0].to_radians(), b[1].to_radians(), b[0].to_radians());
                let mut da = (a[2] - b[2]).abs() % 360.;
                if da > 180. {
                    da = 360. - da;
                }
                pos.max(da.to_radians() * a[3].abs()).max((a[3] - b[3]).abs())
            }
        }
    }
}

pub struct Case {
    pub key: String,
    pub def: String,
    pub inputs: Vec<C4>,
    pub min: Metric,
    pub mout: Metric,
    pub tol_in: f64,
    pub tol_out: f64,
    pub time_kept: bool,
    pub resources: Vec<(String, String)>,
}

fn run_case(rep: &Report, c: &Case, outcomes: &Mutex<HashSet<u64>>, maxima: &Mutex<std::collections::BTreeMap<String, f64>>) {
    let mut ctx = Plain::new();
    for (n, d) in &c.resources {
        ctx.register_resource(n, d);
    }
    let op = match catch(|| ctx.op(&c.def)) {
        Ok(Ok(op)) => op,
        Ok(Err(e)) => {
            rep.violation(&format!("valid parameterisation rejected / {}", c.key), json!({"def": c.def, "error": e.to_string()}));
            return;
        }
        Err(p) => {
            rep.violation(&format!("panic at instantiation: {} / {}", panic_class(&p), c.key), json!({"def": c.def, "panic": p}));
            return;
        }
    };
    let n = c.inputs.len();
    let run = |dir: Direction, data: &mut Vec<Coor4D>| -> Result<usize, String> {
        match catch(|| ctx.apply(op, dir, data)) {
            Ok(Ok(k)) => Ok(k),
            Ok(Err(e)) => Err(e.to_string()),
            Err(p) => Err(format!("PANIC {p}")),
        }
    };
    let mut a: Vec<Coor4D> = c.inputs.iter().map(|t| Coor4D(*t)).collect();
    let r1 = run(Fwd, &mut a);
    let fwd_image = a.clone();
    let r2 = run(Inv, &mut a);
    let back = a.clone();
    let r3 = run(Fwd, &mut a);
    let again = a;
    rep.eval(2 * n as u64);
    for r in [&r1, &r2, &r3] {
        if let Err(e) = r {
            rep.violation(&format!("apply fails or panics ({}) / {}", e.split(' ').next().unwrap_or(""), c.key), json!({"def": c.def, "error": e}));
            return;
        }
    }
    let mut worst_in = 0f64;
    let mut worst_out = 0f64;
    let mut local = HashSet::new();
    for i in 0..n {
        let x = c.inputs[i];
        let y = fwd_image[i].0;
        let x2 = back[i].0;
        let y2 = again[i].0;
        if y.iter().take(3).any(|v| v.is_nan()) || x2.iter().take(3).any(|v| v.is_nan()) {
            rep.violation(
                &format!("tuple inside the documented domain is not transformed (NaN) / {}", c.key),
                json!({"def": c.def, "input": format!("{x:?}"), "forward": format!("{y:?}"), "back": format!("{x2:?}")}),
            );
            continue;
        }
        let at_pole = matches!(c.min, Metric::Geo(_)) && (x[1].abs() - std::f64::consts::FRAC_PI_2).abs() < 0.11f64.to_radians();
        let opname = c.key.split(' ').next().unwrap_or("");
        let d_in = c.min.distance(x, x2);
        let d_out = c.mout.distance(y, y2);
        worst_in = worst_in.max(d_in);
        worst_out = worst_out.max(d_out);
        if at_pole && (!(d_in <= c.tol_in) || !(d_out <= c.tol_out)) {
            // one key per operator for inputs at or next to a pole (conditioning of asin/sqrt there)
            rep.violation(
                &format!("round trip of a tuple within 0.11 degrees of a pole exceeds {:e} m / {opname}", c.tol_in),
                json!({"def": c.def, "input": format!("{x:?}"), "forward": format!("{y:?}"), "back": format!("{x2:?}"), "again": format!("{y2:?}"), "fwd_inv_distance_m": d_in, "inv_fwd_distance_m": d_out}),
            );
            continue;
        }
        if !(d_in <= c.tol_in) {
            rep.violation(
                &format!("round trip does not return the start (> {:e} m) / {}", c.tol_in, c.key),
                json!({"order": "forward then inverse", "def": c.def, "input": format!("{x:?}"), "forward": format!("{y:?}"), "back": format!("{x2:?}"), "distance_m": d_in, "tolerance_m": c.tol_in}),
            );
        }
        if !(d_out <= c.tol_out) {
            rep.violation(
                &format!("round trip does not return the start (> {:e} m) / {}", c.tol_out, c.key),
                json!({"order": "inverse then forward", "def": c.def, "start": format!("{y:?}"), "inverse": format!("{x2:?}"), "again": format!("{y2:?}"), "distance_m": d_out, "tolerance_m": c.tol_out}),
            );
        }
        if c.time_kept && (bits(x[3]) != bits(y[3]) || bits(x[3]) != bits(x2[3])) {
            rep.violation(&format!("the fourth coordinate is not returned bit-identical / {}", c.key), json!({"def": c.def, "input": format!("{x:?}"), "forward": format!("{y:?}")}));
        }
        if i % 61 == 0 {
            local.insert(hash_of(&bits4(y)));
        }
    }
    if r1 != Ok(n) || r2 != Ok(n) || r3 != Ok(n) {
        rep.violation(
            &format!("success count is not the set size although every tuple is inside the domain / {}", c.key),
            json!({"def": c.def, "set_size": n, "counts": [format!("{r1:?}"), format!("{r2:?}"), format!("{r3:?}")]}),
        );
    }
    outcomes.lock().unwrap().extend(local);
    let mut m = maxima.lock().unwrap();
    let opname = c.key.split(' ').next().unwrap_or("").to_string();
    let e = m.entry(opname).or_insert(0.);
    *e = e.max(worst_in).max(if worst_out.is_finite() { worst_out } else { 0. });
}

fn lattice_for(p: &Proj, lat_step: f64, lon_step: f64, max_dlon_cap: f64) -> Vec<C4> {
    let lats = lat_lattice(lat_step, 90.);
    let dlons = dlon_lattice(lon_step, 180.);
    let mut v = Vec::new();
    for (i, &lat) in lats.iter().enumerate() {
        for (j, &dl) in dlons.iter().enumerate() {
            // longitudes as a user gives them: within (-180, 180], also when the domain straddles the antimeridian
            let lon = crate::geo::wrap180(p.lon_c + dl);
            if !p.contains(lat, lon, max_dlon_cap) {
                continue;
            }
            // heights and epochs vary over the lattice (they must come back untouched)
            let h = [0., 100.5, -12.25, 8848.][(i + j) % 4];
            let t = [2020.5, 1995.25, 2001.75][(i + 2 * j) % 3];
            v.push([lon.to_radians(), lat.to_radians(), h, t]);
        }
    }
    v
}

fn wrappers(def: &str) -> Vec<(&'static str, String, Vec<(String, String)>, bool)> {
    // (label, definition, resources, swapped): `swapped` = the wrapper exchanges the two directions
    let (name, rest) = def.split_once(' ').unwrap_or((def, ""));
    vec![
        ("plain", def.to_string(), vec![], false),
        ("inv suffix", format!("{def} inv"), vec![], true),
        ("inv prefix", format!("inv {def}"), vec![], true),
        ("inv infix", format!("{name} inv {rest}"), vec![], true),
        ("one-step pipeline", format!("| {def}"), vec![], false),
        ("macro body", "w:rap".to_string(), vec![("w:rap".to_string(), def.to_string())], false),
        ("inverted macro", "w:rap inv".to_string(), vec![("w:rap".to_string(), def.to_string())], true),
        ("macro with inverted body, inverted", "inv w:rap".to_string(), vec![("w:rap".to_string(), format!("{def} inv"))], false),
    ]
}

fn projection_cases(tier: Tier, ellipsoids: &[String]) -> Vec<Case> {
    let mut cases = Vec::new();
    let (lat_step, lon_step) = tier.pick((7.5, 15.), (0.5, 2.));
    for p in projections() {
        for (ei, ellps) in ellipsoids.iter().enumerate() {
            let Some(ell) = ref_ellipsoid(ellps) else { continue };
            if p.op == "webmerc" && ei > 0 {
                continue;
            }
            let inputs = lattice_for(&p, lat_step, lon_step, 180.);
            if inputs.is_empty() {
                continue;
            }
            let tol = match p.class {
                Class::Rigorous => 1e-5,
                Class::Approximate => 1e-3,
            };
            let def = if p.op == "webmerc" { p.def.clone() } else { p.with_ellps(ellps) };
            let ell = if p.op == "webmerc" { ref_ellipsoid("WGS84").unwrap() } else { ell };
            cases.push(Case {
                key: format!("{} [{}]", p.op, p.aspect),
                def,
                inputs: inputs.clone(),
                min: Metric::Geo(ell),
                mout: Metric::Plane,
                tol_in: tol,
                tol_out: tol,
                time_kept: true,
                resources: vec![],
            });
        }
    }
    cases
}

/// The inv-modifier wrappers: `X inv` forward must equal X inverse and vice versa (bit-identical)
fn inv_wrapper_checks(rep: &Report, defs: &[(String, Vec<C4>)]) {
    for (def, inputs) in defs {
        let mut ctx = Plain::new();
        let Ok(base) = ctx.op(def) else { continue };
        let mut img: Vec<Coor4D> = inputs.iter().map(|t| Coor4D(*t)).collect();
        let _ = ctx.apply(base, Fwd, &mut img);
        for (wl, wdef, res, swapped) in wrappers(def) {
            if wl == "plain" {
                continue;
            }
            for (n, d) in &res {
                ctx.register_resource(n, d);
            }
            rep.eval(1);
            let opname = def.split(' ').next().unwrap_or("");
            let w = match catch(|| ctx.op(&wdef)) {
                Ok(Ok(w)) => w,
                other => {
                    rep.violation(&format!("wrapped form rejected / {opname} ({wl})"), json!({"def": wdef, "result": format!("{other:?}").chars().take(200).collect::<String>()}));
                    continue;
                }
            };
            let (wf, wi) = if swapped { (Inv, Fwd) } else { (Fwd, Inv) };
            // wrapper in direction wf on the inputs == base forward on the inputs
            let mut c: Vec<Coor4D> = inputs.iter().map(|t| Coor4D(*t)).collect();
            let nc = ctx.apply(w, wf, &mut c).unwrap_or(usize::MAX);
            let mut c0: Vec<Coor4D> = inputs.iter().map(|t| Coor4D(*t)).collect();
            let n0 = ctx.apply(base, Fwd, &mut c0).unwrap_or(usize::MAX);
            let same2 = nc == n0 && c.iter().zip(img.iter()).all(|(x, y)| bits4(x.0) == bits4(y.0));
            // wrapper in direction wi on the forward image == base inverse on the forward image
            let mut a = img.clone();
            let mut b = img.clone();
            let na = ctx.apply(w, wi, &mut a).unwrap_or(usize::MAX);
            let nb = ctx.apply(base, Inv, &mut b).unwrap_or(usize::MAX);
            let same = na == nb && a.iter().zip(b.iter()).all(|(x, y)| bits4(x.0) == bits4(y.0));
            if !same || !same2 {
                rep.violation(
                    &format!("wrapped form ({}) is not bit-identical to the plain operator{} / {opname}", wl, if swapped { " with directions exchanged" } else { "" }),
                    json!({"def": wdef, "base": def, "inverse_side_matches": same, "forward_side_matches": same2}),
                );
            }
        }
    }
}

fn other_cases(tier: Tier, ellipsoids: &[String]) -> Vec<Case> {
    let mut cases = Vec::new();
    let grs80 = ref_ellipsoid("GRS80").unwrap();
    let lat_step = tier.pick(15., 2.5);
    let lats = lat_lattice(lat_step, 90.);
    let lons = dlon_lattice(tier.pick(30., 5.), 180.);
    let simple = |key: &str, def: &str, inputs: Vec<C4>, m: Metric, tol: f64| Case {
        key: key.to_string(),
        def: def.to_string(),
        inputs,
        min: m,
        mout: m,
        tol_in: tol,
        tol_out: tol,
        time_kept: true,
        resources: vec![],
    };
    // --- cart: heights -10 km .. 100 km at 10 um, up to 1e7 m at 1 mm
    for ellps in ellipsoids {
        let Some(ell) = ref_ellipsoid(ellps) else { continue };
        for (hs, tol, label) in [(vec![-10_000., 0., 1., 8848., 100_000.], 1e-5, "h in [-10 km, 100 km]"), (vec![1e6, 1e7], 1e-3, "h up to 1e7 m")] {
            let mut inputs = Vec::new();
            for &lat in &lats {
                for &lon in &lons {
                    for &h in &hs {
                        inputs.push([lon.to_radians(), lat.to_radians(), h, 2020.]);
                    }
                }
            }
            cases.push(Case {
                key: format!("cart [{label}] ellps={ellps}"),
                def: format!("cart ellps={ellps}"),
                inputs,
                min: Metric::Geo(ell),
                mout: Metric::Euclid3,
                tol_in: tol,
                tol_out: tol,
                time_kept: true,
                resources: vec![],
            });
        }
    }
    // --- cartesian points for the datum shifts
    let mut xyz: Vec<C4> = Vec::new();
    for &lat in lats.iter().step_by(2) {
        for &lon in lons.iter().step_by(3) {
            for (h, t) in [(0., 2000.), (1000., 2010.5), (-100., 1993.25)] {
                let c = grs80.geo_to_cart(lon.to_radians(), lat.to_radians(), h);
                xyz.push([c[0], c[1], c[2], t]);
            }
        }
    }
    xyz.push([0., 0., 0., 2000.]);
    for (label, def, tol) in [
        ("3 parameters", "helmert x=-87 y=-96 z=-120", 1e-5),
        ("3 parameters, list", "helmert translation=-87,-96,-120", 1e-5),
        ("7 parameters, position vector", "helmert x=0.06155 y=-0.01087 z=-0.04019 rx=-0.0394924 ry=-0.0327221 rz=-0.0328979 s=-0.009994 convention=position_vector", 1e-5),
        // small-angle mode: the inverse undoes the forward to second order in the angles: 3*|r|^2*|x| = 3*(134 arcsec^2)*6.4e6 m
        ("7 parameters, coordinate frame", "helmert translation=1000,0,-1000 rotation=10,-5,3 scale=100 convention=coordinate_frame", 0.06),
        ("7 parameters, exact", "helmert translation=1000,0,-1000 rotation=10,-5,3 scale=100 convention=coordinate_frame exact", 1e-5),
        ("exact, large angles", "helmert x=1 rotation=108000,-36000,72000 exact convention=position_vector", 1e-5),
        ("14 parameters", "helmert x=0.1 y=0.2 z=0.3 rx=0.001 ry=0.002 rz=0.003 s=0.01 dx=0.01 dy=0.02 dz=0.03 drx=0.0001 dry=0.0002 drz=0.0003 ds=0.001 t_epoch=2000 convention=coordinate_frame", 1e-5),
        ("14 parameters, t_obs", "helmert x=0.1 y=0.2 z=0.3 rx=0.001 s=0.01 dx=0.01 dy=0.02 dz=0.03 drx=0.0001 ds=0.001 t_epoch=2000 t_obs=2015.5 convention=position_vector", 1e-5),
    ] {
        cases.push(simple(&format!("helmert [{label}]"), def, xyz.clone(), Metric::Euclid3, tol));
    }
    // --- geographic 3D points
    let mut geo: Vec<C4> = Vec::new();
    for &lat in &lats {
        for &lon in lons.iter().step_by(2) {
            if lat.abs() > 89.95 {
                continue;
            }
            geo.push([lon.to_radians(), lat.to_radians(), [0., 250., -30.][geo.len() % 3], [2020.5, 1987.125][geo.len() % 2]]);
        }
    }
    let intl = ref_ellipsoid("intl").unwrap();
    for (label, def) in [
        ("full, ellps", "molodensky ellps_0=intl ellps_1=GRS80 dx=-87 dy=-96 dz=-120"),
        ("abridged, ellps", "molodensky ellps_0=intl ellps_1=GRS80 dx=-87 dy=-96 dz=-120 abridged"),
        ("full, da df", "molodensky ellps_0=intl dx=-87 dy=-96 dz=-120 da=-251 df=-0.0000141927"),
        ("full, small shift", "molodensky ellps_0=GRS80 ellps_1=WGS84 dx=-8.7 dy=-9.6 dz=-12"),
        ("abridged, small shift", "molodensky ellps_0=GRS80 ellps_1=WGS84 dx=-8.7 dy=-9.6 dz=-12 abridged"),
    ] {
        let g: Vec<C4> = geo.iter().filter(|t| t[1].abs() < 85f64.to_radians()).copied().collect();
        cases.push(simple(&format!("molodensky [{label}]"), def, g, Metric::Geo(intl), 1e-3));
    }
    for kind in ["geocentric", "reduced", "conformal", "authalic", "rectifying", "parametric"] {
        for ellps in ellipsoids.iter().take(3) {
            let ell = ref_ellipsoid(ellps).unwrap();
            cases.push(simple(&format!("latitude [{kind}]"), &format!("latitude {kind} ellps={ellps}"), geo.clone(), Metric::LatOnly(ell), 1e-5));
        }
    }
    for from in ["mean", "zero", "free"] {
        for to in ["mean", "zero", "free"] {
            // (a closed form: the round trip is exact to rounding; 0.1 um leaves six orders of magnitude of room)
            for ellps in ["GRS80", "intl", "bessel", "sphere", "mprts"] {
                cases.push(simple(&format!("permtide [{from}->{to}]"), &format!("permtide from={from} to={to} ellps={ellps}"), geo.clone(), Metric::Height, 1e-7));
            }
        }
    }
    // --- exact conversions
    let generic: Vec<C4> = vec![[1.5, -2.25, 3.75, 2020.5], [0., -0., 1e10, 1987.5], [-1024.5, 77.125, -8., 1.], [5e-324, 1e300, -1e-300, 0.]];
    for def in ["noop", "longlat", "latlon", "latlong", "lonlat", "addone", "axisswap order=2,1", "axisswap order=-4,3,-2,1", "axisswap order=3,-1,2", "adapt from=neuf to=enuf", "adapt from=swdp", "adapt to=pdws"] {
        let mut c = simple(&format!("{} [exact]", def.split(' ').next().unwrap()), def, generic[..3].to_vec(), Metric::Exact, 0.);
        c.time_kept = !(def.starts_with("axisswap") || def.starts_with("adapt"));
        cases.push(c);
    }
    // adapt: every signed axis order (24 orders x 16 sign patterns), as from= and as to=: exact both ways
    {
        let letters = [['e', 'w'], ['n', 's'], ['u', 'd'], ['f', 'p']];
        let mut perms: Vec<Vec<usize>> = vec![vec![]];
        for _ in 0..4 {
            perms = perms.into_iter().flat_map(|p| (0..4).filter(|i| !p.contains(i)).map(|i| { let mut q = p.clone(); q.push(i); q }).collect::<Vec<_>>()).collect();
        }
        for perm in &perms {
            for signs in 0..16usize {
                let d: String = perm.iter().map(|&ax| letters[ax][(signs >> ax) & 1]).collect();
                for def in [format!("adapt from={d}"), format!("adapt to={d}")] {
                    let class = if signs == 0 || signs == 15 { "uniform signs" } else { "mixed signs" };
                    let mut c = simple(&format!("adapt [exact, every signed order, {class}]"), &def, generic[..3].to_vec(), Metric::Exact, 0.);
                    c.time_kept = false;
                    cases.push(c);
                }
            }
        }
        // ... and with angular units on either side (relative 1e-5 is far looser than needed: what is judged is
        // that the right element gets the right factor back)
        for perm in &perms {
            for unit in ["_deg", "_gon"] {
                let d: String = perm.iter().map(|&ax| letters[ax][0]).collect();
                let d2: String = perm.iter().rev().map(|&ax| letters[ax][(ax + 1) & 1]).collect();
                for def in [format!("adapt from={d}{unit}"), format!("adapt from={d}{unit} to={d2}"), format!("adapt from={d2} to={d}{unit}")] {
                    let mut c = simple("adapt [units x every order]", &def, generic[..3].to_vec(), Metric::Relative, 1e-5);
                    c.time_kept = false;
                    cases.push(c);
                }
            }
        }
    }
    cases.push(simple("helmert [dyadic translation, exact]", "helmert x=3 y=-5.5 z=1024", vec![[1.5, -2.25, 3.75, 2020.5], [-1024.5, 77.125, -8., 1.], [0., 0., 0., f64::NAN]], Metric::Exact, 0.));
    for def in ["adapt from=neuf_deg", "adapt to=enuf_gon", "adapt from=sedf_deg to=nwuf_gon", "unitconvert xy_in=deg xy_out=rad", "unitconvert xy_in=us-ft z_in=ft z_out=km", "unitconvert xy_in=km xy_out=mm z_in=in"] {
        cases.push(simple(&format!("{} [units]", def.split(' ').next().unwrap()), def, generic[..3].to_vec(), Metric::Relative, 1e-5));
    }
    // dm / dms: ISO-6709 encodings (lat, lon)
    let mut iso: Vec<C4> = Vec::new();
    for &lat in &lats {
        for &lon in lons.iter().step_by(2) {
            iso.push([geodesy::prelude::angular::dd_to_iso_dm(lat), geodesy::prelude::angular::dd_to_iso_dm(lon), 5., 2020.]);
        }
    }
    cases.push(Case { key: "dm [roundtrip]".into(), def: "dm".into(), inputs: iso.clone(), min: Metric::Iso(grs80, false), mout: Metric::Geo(grs80), tol_in: 1e-5, tol_out: 1e-5, time_kept: true, resources: vec![] });
    let iso2: Vec<C4> = iso.iter().map(|t| [geodesy::prelude::angular::dd_to_iso_dms(geodesy::prelude::angular::iso_dm_to_dd(t[0])), geodesy::prelude::angular::dd_to_iso_dms(geodesy::prelude::angular::iso_dm_to_dd(t[1])), 5., 2020.]).collect();
    cases.push(Case { key: "dms [roundtrip]".into(), def: "dms".into(), inputs: iso2, min: Metric::Iso(grs80, true), mout: Metric::Geo(grs80), tol_in: 1e-5, tol_out: 1e-5, time_kept: true, resources: vec![] });
    // --- grid based shifts inside coverage (shipped grids: lat 54..58, lon 8..16), one cell inside
    let mut cov: Vec<C4> = Vec::new();
    let mut la = 55.0;
    while la <= 57.0 + 1e-9 {
        let mut lo = 9.0;
        while lo <= 15.0 + 1e-9 {
            cov.push([f64::to_radians(lo), f64::to_radians(la), 25., 2015.5]);
            lo += 0.37;
        }
        la += 0.23;
    }
    cases.push(simple("gridshift [datum grid]", "gridshift grids=test.datum", cov.clone(), Metric::Geo(grs80), 1e-5));
    cases.push(simple("gridshift [geoid grid]", "gridshift grids=test.geoid", cov.clone(), Metric::Geo(grs80), 1e-5));
    cases.push(simple("gridshift [grid list]", "gridshift grids=@missing.datum, test_subset.datum, test.datum", cov.clone(), Metric::Geo(grs80), 1e-5));
    let cov_cart: Vec<C4> = cov.iter().map(|t| {
        let c = grs80.geo_to_cart(t[0], t[1], t[2]);
        [c[0], c[1], c[2], t[3]]
    }).collect();
    cases.push(simple("deformation [t_epoch]", "deformation grids=test.deformation t_epoch=2000", cov_cart.clone(), Metric::Euclid3, 1e-5));
    cases.push(simple("deformation [dt]", "deformation grids=test.deformation dt=10", cov_cart.clone(), Metric::Euclid3, 1e-5));
    // NTv2: coverage of 5458.gsb is read from the shipped ASCII twin by the caller; a safe interior box
    // --- geodesic reversible: (lat1, lon1, lat2, lon2) degrees <-> (azimuth, distance...)
    let mut gargs: Vec<C4> = Vec::new();
    for (la1, lo1) in [(55., 12.), (-33.9, 151.2), (0., 0.), (10.3, -70.), (80.7, 179.9)] {
        for azi in [0.1, 15., 45., 89.9, 135., 180.1, 225., 315.] {
            for dist in [1000., 100_000., 5_000_000., 10_000_000., 19_000_000.] {
                gargs.push([la1, lo1, azi, dist]);
            }
        }
    }
    cases.push(Case { key: "geodesic [reversible]".into(), def: "geodesic reversible".into(), inputs: gargs, min: Metric::GeodesicArgs(grs80), mout: Metric::GeoDeg(grs80), tol_in: 1e-4, tol_out: 1e-4, time_kept: false, resources: vec![] });
    // --- whole pipelines
    cases.push(simple("pipeline [cart|helmert|cart inv]", "cart ellps=intl | helmert x=-87 y=-96 z=-120 | cart inv ellps=GRS80", geo.iter().filter(|t| t[1].abs() < 1.55).copied().collect(), Metric::Geo(grs80), 1e-5));
    let utm_geo: Vec<C4> = geo.iter().filter(|t| (t[0].to_degrees() - 9.).abs() <= 30. && t[1].abs() < 1.55).copied().collect();
    cases.push(Case { key: "pipeline [cart|helmert|cart inv|utm]".into(), def: "cart ellps=intl | helmert x=-87 y=-96 z=-120 | cart inv ellps=GRS80 | utm zone=32".into(), inputs: utm_geo.clone(), min: Metric::Geo(intl), mout: Metric::Plane3, tol_in: 1e-5, tol_out: 1e-5, time_kept: true, resources: vec![] });
    let deg: Vec<C4> = utm_geo.iter().map(|t| [t[1].to_degrees(), t[0].to_degrees(), t[2], t[3]]).collect();
    cases.push(Case { key: "pipeline [geo:in|utm|neu:out]".into(), def: "geo:in | utm zone=32 | neu:out".into(), inputs: deg, min: Metric::GeoDeg(grs80), mout: Metric::Plane3, tol_in: 1e-5, tol_out: 1e-5, time_kept: true, resources: vec![] });
    cases.push(Case { key: "pipeline [stack dance]".into(), def: "stack push=3,4 | utm zone=32 | addone | stack roll=2,1 | stack swap | stack pop=4,3".into(), inputs: utm_geo.clone(), min: Metric::Geo(grs80), mout: Metric::Plane3, tol_in: 1e-5, tol_out: 1e-5, time_kept: true, resources: vec![] });
    cases
}

pub fn ellipsoid_names(tier: Tier) -> Vec<String> {
    match tier {
        Tier::Quick => ["GRS80", "intl", "bessel", "clrk66", "WGS84", "sphere"].iter().map(|s| s.to_string()).collect(),
        Tier::Thorough => {
            let mut v: Vec<String> = vec!["GRS80".to_string()];
            for e in geodesy::verif::ellipsoid_table() {
                if e[0] != "GRS80" && e[0] != "unitsphere" {
                    v.push(e[0].to_string());
                }
            }
            v
        }
    }
}

pub fn run(tier: Tier) -> Report {
    let rep = Report::new("C01", tier, "exploration");
    rep.rule("complete product of (operator aspect x ellipsoid x wrapper form) x a fixed deterministic lattice (special latitudes/longitude offsets visible in the code plus a uniform \
              step, clipped to the documented domain, heights and epochs varying) x {fwd->inv, inv->fwd}; distinct_nontrivial = sampled distinct forward images (every 61st lattice point)");
    rep.assume("tolerances are taken from the property statement: 10 um for rigorous projections and exact conversions, 1 mm for btmerc/omerc/molodensky, bit-exact for permutations, sign flips and dyadic translations");
    rep.assume("says nothing about coordinates between lattice points");
    let wd = crate::util::enter_private_workdir();
    crate::catalog::install_grids(&wd);
    // coverage: every invertible built-in must be in the catalogue
    let covered = ["adapt", "addone", "axisswap", "btmerc", "butm", "cart", "deformation", "dm", "dms", "geodesic", "gridshift", "helmert", "laea", "latitude", "lcc", "merc", "webmerc", "molodensky", "omerc", "permtide", "somerc", "tmerc", "unitconvert", "utm", "noop", "longlat", "latlon", "latlong", "lonlat"];
    let structural = ["pipeline", "pop", "push", "stack", "curvature", "deflection", "gravity"];
    for (name, _) in geodesy::verif::builtin_operators() {
        if !covered.contains(&name) && !structural.contains(&name) {
            println!("UNCOVERED operator={name} (not in the C01 catalogue)");
            rep.add_to("uncovered", json!(name));
        }
    }
    let ellipsoids = ellipsoid_names(tier);
    // ellipsoids that cannot be instantiated are a C06 matter; skip them here
    let ellipsoids: Vec<String> = ellipsoids.into_iter().filter(|e| catch(|| Ellipsoid::named(e).is_ok()).unwrap_or(false) && ref_ellipsoid(e).is_some()).collect();
    rep.set("ellipsoids", json!(ellipsoids));
    let mut cases = projection_cases(tier, &ellipsoids);
    cases.extend(other_cases(tier, &ellipsoids));
    rep.set("cases", json!(cases.len()));
    let outcomes = Mutex::new(HashSet::new());
    let maxima = Mutex::new(std::collections::BTreeMap::new());
    par_range(cases.len(), |i| run_case(&rep, &cases[i], &outcomes, &maxima));
    // inv-modifier forms
    let mut defs: Vec<(String, Vec<C4>)> = Vec::new();
    for p in projections() {
        let inputs = lattice_for(&p, 15., 30., 180.);
        if !inputs.is_empty() {
            defs.push((if p.op == "webmerc" { p.def.clone() } else { p.with_ellps("GRS80") }, inputs));
        }
    }
    for c in other_cases(Tier::Quick, &["GRS80".to_string()]) {
        if !c.def.contains('|') {
            defs.push((c.def.clone(), c.inputs.iter().take(40).copied().collect()));
        }
    }
    inv_wrapper_checks(&rep, &defs);
    for c in cases.iter().step_by(cases.len() / 6 + 1) {
        rep.sample(json!({"case": c.key, "def": c.def, "lattice_points": c.inputs.len(), "first": format!("{:?}", c.inputs.first()), "last": format!("{:?}", c.inputs.last())}));
    }
    rep.set("observed_max_roundtrip_error_m_per_operator", json!(*maxima.lock().unwrap()));
    let o = outcomes.into_inner().unwrap();
    rep.nontrivial_bulk(&o);
    rep.outcomes_bulk(&o);
    Plain::clear_grids();
    crate::util::leave_private_workdir(&wd);
    rep
}
