//! C15 — grid files decode faithfully; damaged files are rejected rather than crashing.
//! Well-formed: generated Gravsoft (geometry x bands x layouts) and NTv2 (byte orders x trees x
//! file orders) decode to exactly the nodes written; the shipped .gsa twins agree with the
//! library's decode of the .gsb files at every node. Damaged: for every shipped grid file and
//! generated ones: every truncation length, every single-bit flip in the header records, every
//! header field x 19 adversarial encodings x both byte orders, Gravsoft token deletion /
//! duplication / replacement; then a query lattice. All in worker processes (4 GiB address
//! space, 2 MiB stack, watchdog).

use crate::engine::*;
use crate::gridgen::*;
use geodesy::authoring::*;
use serde_json::{json, Value};
use std::collections::HashSet;
use std::sync::Mutex;

fn generated(id: &str) -> Option<Vec<u8>> {
    let g = GeoDeg { lat_s: 54., lat_n: 56., lon_w: 8., lon_e: 11., dlat: 1., dlon: 1. };
    let root = SubGrid { name: "ROOT".into(), parent: "NONE".into(), lat_s: 54., lat_n: 57., lon_w: 8., lon_e: 12., dlat: 1., dlon: 1., seed: 1 };
    let child = SubGrid { name: "CHILD".into(), parent: "ROOT".into(), lat_s: 55., lat_n: 56., lon_w: 9., lon_e: 11., dlat: 0.5, dlon: 0.5, seed: 2 };
    Some(match id {
        "gen:gravsoft1" => gravsoft_text(&g, 1, &|r, c, b| node_value(5, r, c, b), TextLayout::RowPerLine).into_bytes(),
        "gen:gravsoft2" => gravsoft_text(&g, 2, &|r, c, b| node_value(6, r, c, b), TextLayout::WithComments).into_bytes(),
        "gen:gravsoft3" => gravsoft_text(&g, 3, &|r, c, b| node_value(7, r, c, b), TextLayout::Crlf).into_bytes(),
        "gen:ntv2le" => ntv2_bytes(&[root, child], false),
        "gen:ntv2be" => ntv2_bytes(&[child, root], true),
        // two coordinated defects: a second record named ROOT whose parent is CHILD closes a parent cycle
        "gen:ntv2cycle" => {
            let mut again = root.clone();
            again.parent = "CHILD".into();
            ntv2_bytes(&[root, child, again], false)
        }
        // duplicate names, orphan (parent that does not exist), child outside its parent
        "gen:ntv2odd" => {
            let mut orphan = child.clone();
            orphan.name = "ORPHAN".into();
            orphan.parent = "NOSUCH".into();
            let mut outside = child.clone();
            outside.name = "OUTSIDE".into();
            outside.lat_s = 70.;
            outside.lat_n = 71.;
            ntv2_bytes(&[root.clone(), child.clone(), child, orphan, outside, root], true)
        }
        _ => return None,
    })
}

fn load_base(id: &str) -> Vec<u8> {
    if let Some(path) = id.strip_prefix("file:") {
        std::fs::read(path).unwrap_or_default()
    } else {
        generated(id).unwrap_or_default()
    }
}

fn is_ntv2(id: &str) -> bool {
    id.ends_with(".gsb") || id.starts_with("gen:ntv2")
}

/// token boundaries (start, end) of whitespace separated tokens
fn tokens(buf: &[u8]) -> Vec<(usize, usize)> {
    let mut v = Vec::new();
    let mut i = 0;
    while i < buf.len() {
        while i < buf.len() && buf[i].is_ascii_whitespace() {
            i += 1;
        }
        let s = i;
        while i < buf.len() && !buf[i].is_ascii_whitespace() {
            i += 1;
        }
        if i > s {
            v.push((s, i));
        }
    }
    v
}

const FIELD_ENCODINGS: usize = 19;
fn field_encoding(k: usize, be: bool) -> [u8; 8] {
    let f = |x: f64| if be { x.to_be_bytes() } else { x.to_le_bytes() };
    let u = |x: u32| {
        let mut b = [0u8; 8];
        let w = if be { x.to_be_bytes() } else { x.to_le_bytes() };
        b[..4].copy_from_slice(&w);
        b
    };
    match k {
        0 => f(0.),
        1 => f(-0.),
        2 => f(1.),
        3 => f(-1.),
        4 => f(f64::NAN),
        5 => f(f64::INFINITY),
        6 => f(f64::NEG_INFINITY),
        7 => f(1e308),
        8 => f(5e-324),
        9 => u(u32::MAX),
        10 => u(0x8000_0000),
        11 => u(0x7fff_ffff),
        12 => u(0xffff_fff0),
        13 => u(0),
        // names: the root marker, the names used in the generated and shipped files (so that a name or a parent
        // field comes to refer to itself, to a sibling, or to the root marker), blanks
        14 => *b"NONE    ",
        15 => *b"ROOT    ",
        16 => *b"CHILD   ",
        17 => *b"5458    ",
        _ => *b"        ",
    }
}

const REPLACEMENTS: [&str; 7] = ["NaN", "inf", "-1", "1e308", "0", "x", "1e-320"];

fn mutate(base: &[u8], op: &Value) -> Vec<u8> {
    let mut b = base.to_vec();
    match op["kind"].as_str().unwrap_or("") {
        "none" => {}
        "trunc" => b.truncate(op["n"].as_u64().unwrap_or(0) as usize),
        "flip" => {
            let (i, bit) = (op["byte"].as_u64().unwrap_or(0) as usize, op["bit"].as_u64().unwrap_or(0) as u8);
            if i < b.len() {
                b[i] ^= 1 << bit;
            }
        }
        "field" => {
            let off = op["offset"].as_u64().unwrap_or(0) as usize;
            let enc = field_encoding(op["enc"].as_u64().unwrap_or(0) as usize, op["be"].as_bool().unwrap_or(false));
            if off + 8 <= b.len() {
                b[off..off + 8].copy_from_slice(&enc);
            }
        }
        "tok-del" | "tok-dup" | "tok-rep" => {
            let t = tokens(&b);
            let i = op["token"].as_u64().unwrap_or(0) as usize;
            if let Some(&(s, e)) = t.get(i) {
                let tok = b[s..e].to_vec();
                let new: Vec<u8> = match op["kind"].as_str().unwrap() {
                    "tok-del" => vec![],
                    "tok-dup" => [tok.clone(), b" ".to_vec(), tok].concat(),
                    _ => REPLACEMENTS[op["with"].as_u64().unwrap_or(0) as usize % REPLACEMENTS.len()].as_bytes().to_vec(),
                };
                b.splice(s..e, new);
            }
        }
        _ => {}
    }
    b
}

fn query_lattice() -> Vec<Coor4D> {
    let mut q = Vec::new();
    for lat in [54.0f64, 54.5, 55., 55.25, 56., 57., 58., 53.7, 58.4, 60., -54., 0., 90., -90.] {
        for lon in [8.0f64, 8.5, 9., 10.75, 12., 16., 7.6, 16.4, 20., -9., 0., 180., -180., 179.5] {
            q.push(Coor4D([lon.to_radians(), lat.to_radians(), 0., 2020.]));
        }
    }
    for v in [f64::NAN, f64::INFINITY, f64::NEG_INFINITY, 1e308, -1e308, 5e-324] {
        q.push(Coor4D([v, 0.97, 0., 0.]));
        q.push(Coor4D([0.2, v, 0., 0.]));
        q.push(Coor4D([v, v, v, v]));
    }
    q
}

/// Worker subject: decode the mutated file and, if that gives a grid, query it
pub fn worker_subject(case: &str) -> String {
    thread_local! { static CACHE: std::cell::RefCell<std::collections::HashMap<String, Vec<u8>>> = std::cell::RefCell::new(std::collections::HashMap::new()); }
    let Ok(v) = serde_json::from_str::<Value>(case) else { return "BADCASE".into() };
    let id = v["base"].as_str().unwrap_or("").to_string();
    let base = CACHE.with(|c| c.borrow_mut().entry(id.clone()).or_insert_with(|| load_base(&id)).clone());
    if base.is_empty() {
        return "NOBASE".into();
    }
    let bytes = mutate(&base, &v["op"]);
    let grid: Box<dyn Grid> = if is_ntv2(&id) {
        match Ntv2Grid::new(&bytes) {
            Ok(g) => Box::new(g),
            Err(_) => return "ERR".into(),
        }
    } else {
        match BaseGrid::gravsoft(&bytes) {
            Ok(g) => Box::new(g),
            Err(_) => return "ERR".into(),
        }
    };
    let mut found = 0;
    let mut h = 0u64;
    for q in query_lattice() {
        for margin in [0.0, 0.5, 1e9] {
            let c = grid.contains(&q, margin);
            if let Some(v) = grid.at(&q, margin) {
                found += 1;
                h = hash_of(&(h, bits4(v.0)));
            }
            h = hash_of(&(h, c));
        }
    }
    let _ = grid.bands();
    format!("OK {found} {h:x}")
}

fn cases_for(id: &str, len: usize, tier: Tier) -> Vec<Value> {
    let mut ops: Vec<Value> = vec![json!({"kind": "none"})];
    // truncations
    let dense = match tier {
        Tier::Quick => len.min(4096),
        Tier::Thorough => len.min(65536),
    };
    for n in 0..dense {
        ops.push(json!({"kind": "trunc", "n": n}));
    }
    let stride = tier.pick(65536usize, 4096);
    let mut n = dense;
    while n < len {
        ops.push(json!({"kind": "trunc", "n": n}));
        n += stride;
    }
    if len > dense {
        for n in len.saturating_sub(40)..len {
            ops.push(json!({"kind": "trunc", "n": n}));
        }
    }
    // single bit flips in the header records
    let flip_bytes = if is_ntv2(id) { len.min(tier.pick(1100, 4096)) } else { len.min(tier.pick(200, 600)) };
    for byte in 0..flip_bytes {
        for bit in 0..8 {
            ops.push(json!({"kind": "flip", "byte": byte, "bit": bit}));
        }
    }
    if is_ntv2(id) {
        // every 16-byte record of the first two header blocks (and of the second sub-grid header when present)
        let mut offsets: Vec<usize> = (0..22).map(|r| r * 16 + 8).collect();
        if len > 1100 {
            // header of the second sub-grid of the shipped two-sub-grid file / generated files: scan for "SUB_NAME"
            let base = load_base(id);
            let mut p = 352;
            while p + 16 <= base.len() {
                if &base[p..p + 8] == b"SUB_NAME" {
                    offsets.extend((0..11).map(|r| p + r * 16 + 8));
                }
                p += 16;
            }
        }
        for off in offsets {
            for enc in 0..FIELD_ENCODINGS {
                for be in [false, true] {
                    ops.push(json!({"kind": "field", "offset": off, "enc": enc, "be": be}));
                }
            }
        }
    } else {
        let ntok = tokens(&load_base(id)).len();
        let mut toks: Vec<usize> = (0..ntok.min(tier.pick(40, 120))).collect();
        let mut t = toks.len();
        while t < ntok && toks.len() < tier.pick(60, 400) {
            toks.push(t);
            t += ntok / tier.pick(20, 280) + 1;
        }
        if ntok > 0 {
            toks.push(ntok - 1);
        }
        for t in toks {
            ops.push(json!({"kind": "tok-del", "token": t}));
            ops.push(json!({"kind": "tok-dup", "token": t}));
            for w in 0..REPLACEMENTS.len() {
                ops.push(json!({"kind": "tok-rep", "token": t, "with": w}));
            }
        }
    }
    ops
}

fn damaged(rep: &Report, tier: Tier, outcomes: &Mutex<HashSet<u64>>) {
    let mut bases: Vec<String> = vec![
        "file:/repo/geodesy/datum/test.datum",
        "file:/repo/geodesy/datum/test_subset.datum",
        "file:/repo/geodesy/geoid/test.geoid",
        "file:/repo/geodesy/deformation/test.deformation",
        "file:/repo/geodesy/deformation/another_test.deformation",
        "file:/repo/geodesy/gsb/5458.gsb",
        "file:/repo/geodesy/gsb/5458_with_subgrid.gsb",
        "file:/repo/geodesy/gsb/100800401.gsb",
        "gen:gravsoft1",
        "gen:gravsoft2",
        "gen:gravsoft3",
        "gen:ntv2le",
        "gen:ntv2be",
        "gen:ntv2cycle",
        "gen:ntv2odd",
    ]
    .iter()
    .map(|s| s.to_string())
    .collect();
    bases.push("file:/repo/geodesy/deformation/eur_nkg_nkgrf17vel.deformation".to_string());
    let mut cases: Vec<String> = Vec::new();
    let mut meta: Vec<(String, Value)> = Vec::new();
    for id in &bases {
        let len = load_base(id).len();
        if len == 0 {
            rep.machinery_error(format!("base grid file not available: {id}"));
            continue;
        }
        let big = len > 1_000_000;
        let mut ops = cases_for(id, len, tier);
        if big && tier == Tier::Quick {
            // the 2.8 MB file costs ~30 ms per decode: header region and sparse truncations only in the quick tier
            ops.retain(|o| match o["kind"].as_str().unwrap() {
                "trunc" => o["n"].as_u64().unwrap() < 256 || o["n"].as_u64().unwrap() % 262144 == 0 || o["n"].as_u64().unwrap() as usize > len - 8,
                "flip" => o["byte"].as_u64().unwrap() < 48,
                _ => o["token"].as_u64().map(|t| t < 8).unwrap_or(true),
            });
        }
        rep.add_to("bases", json!({"base": id, "bytes": len, "cases": ops.len()}));
        for op in ops {
            cases.push(json!({"base": id, "op": op}).to_string());
            meta.push((id.clone(), op));
        }
    }
    // the unmodified file of every base first: if that already hangs or dies, the base's other cases are skipped
    let none_cases: Vec<String> = bases.iter().map(|id| json!({"base": id, "op": {"kind": "none"}}).to_string()).collect();
    let none_results = run_in_workers("c15", &none_cases, 10);
    let mut dead: HashSet<String> = HashSet::new();
    for (id, r) in bases.iter().zip(none_results.iter()) {
        if matches!(r, WorkerOutcome::Timeout | WorkerOutcome::Died(_)) {
            dead.insert(id.clone());
            rep.violation(
                &format!("decoding or querying an (adversarially structured) grid file {} / {id}", if *r == WorkerOutcome::Timeout { "hangs" } else { "kills the process" }),
                json!({"base": id, "op": {"kind": "none"}, "outcome": format!("{r:?}")}),
            );
            rep.eval(1);
        }
    }
    let keep: Vec<bool> = meta.iter().map(|m| !dead.contains(&m.0)).collect();
    let cases: Vec<String> = cases.into_iter().zip(keep.iter()).filter(|x| *x.1).map(|x| x.0).collect();
    let meta: Vec<(String, Value)> = meta.into_iter().zip(keep.iter()).filter(|x| *x.1).map(|x| x.0).collect();
    let results = run_in_workers("c15", &cases, 20);
    let (mut errs, mut grids) = (0u64, 0u64);
    for ((id, op), res) in meta.iter().zip(results.iter()) {
        rep.eval(1);
        let kind = op["kind"].as_str().unwrap_or("");
        let fmt = if is_ntv2(id) { "NTv2" } else { "Gravsoft" };
        match res {
            WorkerOutcome::Skipped => rep.not_exhaustive("more than 200 cases of a worker space hung: the rest of that space was not run"),
            WorkerOutcome::Answer(a) if a == "ERR" => {
                errs += 1;
                if kind == "none" && id != "gen:ntv2cycle" && id != "gen:ntv2odd" {
                    rep.violation(&format!("an unmodified grid file is rejected / {id}"), json!({"base": id}));
                }
            }
            WorkerOutcome::Answer(a) if a.starts_with("OK") => {
                grids += 1;
                outcomes.lock().unwrap().insert(hash_of(a));
            }
            WorkerOutcome::Answer(a) if a.starts_with("PANIC") => {
                let p = &a[6..];
                rep.violation(&format!("damaged {fmt} file makes decoding or querying panic: {} ({kind})", panic_class(p)), json!({"base": id, "op": op, "panic": p}));
            }
            WorkerOutcome::Answer(a) => rep.machinery_error(format!("unexpected worker answer {a}")),
            WorkerOutcome::Died(s) => rep.violation(&format!("damaged {fmt} file kills the process ({s}) ({kind})"), json!({"base": id, "op": op})),
            WorkerOutcome::Timeout => rep.violation(&format!("damaged {fmt} file makes decoding or querying hang ({kind})"), json!({"base": id, "op": op})),
        }
    }
    rep.set("damaged_decodes_rejected", json!(errs));
    rep.set("damaged_decodes_yielding_a_grid", json!(grids));
    rep.sample(json!({"base": meta[meta.len() / 2].0, "op": meta[meta.len() / 2].1}));
    rep.sample(json!({"base": meta[meta.len() - 1].0, "op": meta[meta.len() - 1].1, "queries_per_decoded_grid": query_lattice().len() * 3}));
}

/// the ASCII twin of an NTv2 file: (name, parent, s, n, e, w, dlat, dlon, nodes (lat shift, lon shift))
fn parse_gsa(text: &str) -> Vec<(String, String, [f64; 6], Vec<(f32, f32)>)> {
    let mut out = Vec::new();
    let mut cur: Option<(String, String, [f64; 6], Vec<(f32, f32)>)> = None;
    for line in text.lines() {
        let t: Vec<&str> = line.split_whitespace().collect();
        if t.is_empty() {
            continue;
        }
        match t[0] {
            "SUB_NAME" => {
                if let Some(c) = cur.take() {
                    out.push(c);
                }
                cur = Some((t[1].to_string(), String::new(), [0.; 6], Vec::new()));
            }
            "PARENT" => cur.as_mut().unwrap().1 = t[1].to_string(),
            "S_LAT" => cur.as_mut().unwrap().2[0] = t[1].parse().unwrap(),
            "N_LAT" => cur.as_mut().unwrap().2[1] = t[1].parse().unwrap(),
            "E_LONG" => cur.as_mut().unwrap().2[2] = t[1].parse().unwrap(),
            "W_LONG" => cur.as_mut().unwrap().2[3] = t[1].parse().unwrap(),
            "LAT_INC" => cur.as_mut().unwrap().2[4] = t[1].parse().unwrap(),
            "LONG_INC" => cur.as_mut().unwrap().2[5] = t[1].parse().unwrap(),
            "END" => {}
            _ => {
                if let (Some(c), true) = (cur.as_mut(), t.len() == 4) {
                    if let (Ok(a), Ok(b)) = (t[0].parse::<f32>(), t[1].parse::<f32>()) {
                        c.3.push((a, b));
                    }
                }
            }
        }
    }
    if let Some(c) = cur.take() {
        out.push(c);
    }
    out
}

fn well_formed(rep: &Report) {
    // the shipped ASCII twins against the library's decode of the binary files, at every node
    for stem in ["5458", "5458_with_subgrid"] {
        let gsa = std::fs::read_to_string(format!("/repo/geodesy/gsb/{stem}.gsa")).unwrap_or_default();
        let gsb = std::fs::read(format!("/repo/geodesy/gsb/{stem}.gsb")).unwrap_or_default();
        let subs = parse_gsa(&gsa);
        let Ok(Ok(grid)) = catch(|| Ntv2Grid::new(&gsb)) else {
            rep.violation("shipped NTv2 file cannot be decoded", json!({"file": stem}));
            continue;
        };
        if subs.is_empty() {
            rep.machinery_error(format!("could not parse {stem}.gsa"));
            continue;
        }
        for (si, (name, _parent, g, nodes)) in subs.iter().enumerate() {
            let (s, n, e, w, dlat, dlon) = (g[0], g[1], g[2], g[3], g[4], g[5]);
            let rows = ((n - s) / dlat + 0.5).floor() as usize + 1;
            let cols = ((w - e) / dlon + 0.5).floor() as usize + 1;
            if rows * cols != nodes.len() {
                rep.machinery_error(format!("{stem}.gsa: node count mismatch for {name}"));
                continue;
            }
            // file order: rows south to north, east to west; longitudes positive west (arcsec)
            for r in 0..rows {
                for c in 0..cols {
                    let lat = (s + r as f64 * dlat) / 3600.;
                    let lon = -(e + c as f64 * dlon) / 3600.;
                    // nodes on the upper (north / east) border belong to the neighbour by NTv2 convention, and nodes
                    // covered by a deeper sub-grid are served by that one: skip both
                    if r == rows - 1 || c == 0 {
                        continue;
                    }
                    let covered = subs.iter().enumerate().any(|(k, o)| k != si && o.1 == *name && lat * 3600. >= o.2[0] && lat * 3600. <= o.2[1] && -lon * 3600. >= o.2[2] && -lon * 3600. <= o.2[3]);
                    if covered {
                        continue;
                    }
                    rep.eval(1);
                    let (la, lo) = nodes[r * cols + c];
                    let want = [((-(lo as f64)) / 3600.).to_radians() as f32 as f64, ((la as f64) / 3600.).to_radians() as f32 as f64];
                    match catch(|| grid.at(&Coor4D([lon.to_radians(), lat.to_radians(), 0., 0.]), 0.0)) {
                        Ok(Some(v)) if (v[0] - want[0]).abs() <= 1e-12 * want[0].abs().max(1e-9) && (v[1] - want[1]).abs() <= 1e-12 * want[1].abs().max(1e-9) => {}
                        other => rep.violation(
                            "binary and ASCII renderings of the same NTv2 grid decode to different node values",
                            json!({"file": stem, "subgrid": name, "lat_deg": lat, "lon_deg": lon, "ascii_lat_lon_shift_arcsec": [la, lo], "expected_lon_lat_rad": want, "observed": format!("{other:?}")}),
                        ),
                    }
                }
            }
        }
    }
    // generated Gravsoft files: every layout of the same grid (row per line, one value per line, comments after
    // a blank, comments glued to a number, CR LF, tabs and blank lines) decodes to the geometry and the nodes written
    for bands in 1..=3usize {
        let g = GeoDeg { lat_s: 54., lat_n: 56., lon_w: 8., lon_e: 11., dlat: 0.5, dlon: 0.75 };
        let fv = move |r: usize, c: usize, b: usize| node_value(40 + bands as u32, r, c, b);
        let reference = gravsoft_reference(&g, bands, &fv);
        for layout in [TextLayout::RowPerLine, TextLayout::OneValuePerLine, TextLayout::WithComments, TextLayout::GluedComments, TextLayout::Crlf, TextLayout::TabsAndBlankLines] {
            let text = gravsoft_text(&g, bands, &fv, layout);
            rep.eval(1);
            let grid = match catch(|| BaseGrid::gravsoft(text.as_bytes())) {
                Ok(Ok(gr)) => gr,
                other => {
                    rep.violation(&format!("well-formed generated Gravsoft file rejected / {layout:?}"), json!({"bands": bands, "layout": format!("{layout:?}"), "result": format!("{:?}", other.map(|r| r.map(|_| "grid").map_err(|e| e.to_string()))), "text": text.chars().take(300).collect::<String>()}));
                    continue;
                }
            };
            if grid.bands() != bands {
                rep.violation(&format!("generated Gravsoft file decoded with the wrong number of bands / {layout:?}"), json!({"bands": bands, "observed": grid.bands()}));
                continue;
            }
            for row in 0..g.rows() {
                for col in 0..g.cols() {
                    let (lat, lon) = ((g.lat_n - row as f64 * g.dlat).to_radians(), (g.lon_w + col as f64 * g.dlon).to_radians());
                    rep.eval(1);
                    let want = reference.at(lon, lat);
                    let got = catch(|| grid.at(&Coor4D([lon, lat, 0., 0.]), 0.5));
                    let ok = match &got {
                        Ok(Some(v)) => (0..bands).all(|b| (v[b] - want[b]).abs() <= 1e-9 * want[b].abs().max(1e-12)),
                        _ => false,
                    };
                    if !ok {
                        rep.violation(&format!("generated Gravsoft node not decoded as written / {layout:?}"), json!({"bands": bands, "layout": format!("{layout:?}"), "row": row, "col": col, "expected": want, "observed": format!("{got:?}")}));
                    }
                }
            }
        }
    }
    // generated NTv2 in both byte orders and both file orders: identical decode at every interior node
    let root = SubGrid { name: "ROOT".into(), parent: "NONE".into(), lat_s: 54., lat_n: 57., lon_w: 8., lon_e: 12., dlat: 1., dlon: 1., seed: 1 };
    let child = SubGrid { name: "CHILD".into(), parent: "ROOT".into(), lat_s: 55., lat_n: 56., lon_w: 9., lon_e: 11., dlat: 0.5, dlon: 0.5, seed: 2 };
    // a well-formed file as any producer writing decimal bounds will create it: (north - south) / step is
    // 2.9999999999999996 here, not 3: accepted, and decoded to the nodes written
    for be in [false, true] {
        let frac = SubGrid { name: "FRAC".into(), parent: "NONE".into(), lat_s: 54.3, lat_n: 54.3 + 3. * 0.1, lon_w: 8.3, lon_e: 8.3 + 6. * 0.2, dlat: 0.1, dlon: 0.2, seed: 606 };
        rep.eval(1);
        match catch(|| Ntv2Grid::new(&ntv2_bytes(std::slice::from_ref(&frac), be))) {
            Ok(Ok(grid)) => {
                let r = frac.reference();
                for row in 1..r.rows - 1 {
                    for col in 1..r.cols - 1 {
                        let (lat, lon) = (r.lat_n - row as f64 * r.dlat, r.lon_w + col as f64 * r.dlon);
                        rep.eval(1);
                        match catch(|| grid.at(&Coor4D([lon, lat, 0., 0.]), 0.0)) {
                            Ok(Some(v)) if (v[0] - r.node(row, col, 0)).abs() <= 1e-18 + 1e-9 * v[0].abs() && (v[1] - r.node(row, col, 1)).abs() <= 1e-18 + 1e-9 * v[1].abs() => {}
                            other => rep.violation(
                                "generated NTv2 node not decoded as written / decimal bounds",
                                json!({"row": row, "col": col, "big_endian": be, "expected": [r.node(row, col, 0), r.node(row, col, 1)], "observed": format!("{other:?}")}),
                            ),
                        }
                    }
                }
            }
            other => rep.violation("generated well-formed NTv2 file rejected", json!({"big_endian": be, "shape": "single root, decimal bounds", "result": format!("{:?}", other.map(|r| r.map(|_| "grid").map_err(|e| e.to_string())))})),
        }
    }
    for be in [false, true] {
        for order in [[0, 1], [1, 0]] {
            let subs = [root.clone(), child.clone()];
            let file: Vec<SubGrid> = order.iter().map(|&i| subs[i].clone()).collect();
            let Ok(Ok(grid)) = catch(|| Ntv2Grid::new(&ntv2_bytes(&file, be))) else {
                rep.violation("generated well-formed NTv2 file rejected", json!({"big_endian": be, "order": order}));
                continue;
            };
            for s in &subs {
                let r = s.reference();
                for row in 1..r.rows {
                    for col in 0..r.cols - 1 {
                        let lat = r.lat_n - row as f64 * r.dlat;
                        let lon = r.lon_w + col as f64 * r.dlon;
                        let inside_child = s.name == "ROOT" && child.reference().contains(lon, lat, 0.);
                        if inside_child {
                            continue;
                        }
                        rep.eval(1);
                        match catch(|| grid.at(&Coor4D([lon, lat, 0., 0.]), 0.0)) {
                            Ok(Some(v)) if (v[0] - r.node(row, col, 0)).abs() <= 1e-18 + 1e-12 * v[0].abs() && (v[1] - r.node(row, col, 1)).abs() <= 1e-18 + 1e-12 * v[1].abs() => {}
                            other => rep.violation(
                                &format!("generated NTv2 node not decoded as written / {}", if be { "big endian" } else { "little endian" }),
                                json!({"subgrid": s.name, "row": row, "col": col, "big_endian": be, "file_order": order, "expected": [r.node(row, col, 0), r.node(row, col, 1)], "observed": format!("{other:?}")}),
                            ),
                        }
                    }
                }
            }
        }
    }
}

pub fn run(tier: Tier) -> Report {
    let rep = Report::new("C15", tier, "fault_enumeration");
    rep.rule("for each of 9 shipped and 5 generated grid files: every truncation length (dense up to a cap, strided beyond), every single-bit flip of the header region, every header \
              field x 19 adversarial encodings x both byte orders (NTv2), token deletion / duplication / 7 replacements (Gravsoft); each corrupted file is decoded by the real reader \
              in a worker process and, if a grid results, queried at 214 points x 3 margins. Non-trivial = corruption that still yields a grid; distinct = distinct query result hash");
    rep.assume("a decode that returns Err is always acceptable; a decode that returns a grid must be queryable without panic, abort, hang or exceeding 4 GiB of address space");
    let outcomes = Mutex::new(HashSet::new());
    well_formed(&rep);
    // projected Gravsoft grids decode to the geometry and values written (shared with C08)
    if let Err(p) = catch(|| crate::props::c08::projected_grids(&rep)) {
        rep.violation(&format!("panic reading a projected grid: {}", panic_class(&p)), json!({"panic": p}));
    }
    damaged(&rep, tier, &outcomes);
    let o = outcomes.into_inner().unwrap();
    rep.nontrivial_bulk(&o);
    rep.outcomes_bulk(&o);
    rep
}

pub fn replay(case: &Value) -> Result<String, String> {
    let c = json!({"base": case["base"], "op": case["op"]}).to_string();
    match &run_in_workers("c15", &[c], 60)[0] {
        WorkerOutcome::Answer(a) if a == "ERR" || a.starts_with("OK") => Ok(a.clone()),
        other => Err(format!("{other:?}")),
    }
}
