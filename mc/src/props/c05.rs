//! C05 — each map projection has the geometry that defines it.
//! Partial derivatives of the forward operator by 4th order central differences through
//! Context::apply, normalised by the harness's own M and N cos(phi): conformal projections must
//! have h == k, orthogonal graticule images and positive orientation; laea area scale 1; webmerc
//! the closed form; lines/points of true scale and origins as documented.

use crate::engine::*;
use crate::geo::*;
use crate::projs::*;
use crate::props::c01::C4;
use geodesy::authoring::*;
use serde_json::json;
use std::collections::{BTreeMap, HashSet};
use std::sync::Mutex;

struct Derived {
    /// scale along the meridian and along the parallel, angle defect from orthogonality (rad), area scale
    h: f64,
    k: f64,
    ortho: f64,
    area: f64,
    orientation_positive: bool,
}

/// forward images of a list of (lon, lat) in radians
fn forward(ctx: &Minimal, op: OpHandle, pts: &[[f64; 2]]) -> Vec<[f64; 2]> {
    let mut d: Vec<Coor4D> = pts.iter().map(|p| Coor4D([p[0], p[1], 0., 0.])).collect();
    let _ = ctx.apply(op, Fwd, &mut d);
    d.iter().map(|c| [c.0[0], c.0[1]]).collect()
}

fn derive(ctx: &Minimal, op: OpHandle, ell: &Ell, pts: &[[f64; 2]]) -> Vec<Derived> {
    // 4th order central differences: f' = (-f(x+2d) + 8 f(x+d) - 8 f(x-d) + f(x-2d)) / 12 d
    let mut all: Vec<[f64; 2]> = Vec::with_capacity(pts.len() * 8);
    let mut steps = Vec::with_capacity(pts.len());
    for p in pts {
        let d = 1e-4f64.min(0.004 * (std::f64::consts::FRAC_PI_2 - p[1].abs())).max(1e-7);
        steps.push(d);
        for m in [2., 1., -1., -2.] {
            all.push([p[0], p[1] + m * d]);
        }
        for m in [2., 1., -1., -2.] {
            all.push([p[0] + m * d, p[1]]);
        }
    }
    let img = forward(ctx, op, &all);
    let mut out = Vec::with_capacity(pts.len());
    for (i, p) in pts.iter().enumerate() {
        let d = steps[i];
        let f = &img[8 * i..8 * i + 8];
        let dphi = [(-f[0][0] + 8. * f[1][0] - 8. * f[2][0] + f[3][0]) / (12. * d), (-f[0][1] + 8. * f[1][1] - 8. * f[2][1] + f[3][1]) / (12. * d)];
        let dlam = [(-f[4][0] + 8. * f[5][0] - 8. * f[6][0] + f[7][0]) / (12. * d), (-f[4][1] + 8. * f[5][1] - 8. * f[6][1] + f[7][1]) / (12. * d)];
        let m = ell.m(p[1]);
        let ncos = ell.n(p[1]) * p[1].cos();
        let h = dphi[0].hypot(dphi[1]) / m;
        let k = dlam[0].hypot(dlam[1]) / ncos;
        let dot = (dphi[0] * dlam[0] + dphi[1] * dlam[1]) / (dphi[0].hypot(dphi[1]) * dlam[0].hypot(dlam[1]));
        let cross = dlam[0] * dphi[1] - dlam[1] * dphi[0];
        out.push(Derived { h, k, ortho: dot, area: cross / (m * ncos), orientation_positive: cross > 0. });
    }
    out
}

fn lattice(p: &Proj, lat_step: f64, lon_step: f64) -> Vec<[f64; 2]> {
    // C05's domain: tmerc/utm within 60 degrees of the central meridian, otherwise the table's domain
    let max_dlon: f64 = if p.op == "tmerc" || p.op == "utm" { 60. } else { p.max_dlon };
    let pp = Proj { max_dlon, ..p.clone() };
    let mut v = Vec::new();
    for &lat in &lat_lattice(lat_step, 89.9) {
        for &dl in &dlon_lattice(lon_step, 180.) {
            // longitudes as a user gives them: within (-180, 180], also when the domain straddles the antimeridian
            let lon = crate::geo::wrap180(p.lon_c + dl);
            if pp.contains(lat, lon, 180.) {
                v.push([lon.to_radians(), lat.to_radians()]);
            }
        }
    }
    v
}

pub fn run(tier: Tier) -> Report {
    let rep = Report::new("C05", tier, "exploration");
    rep.rule("complete product of projection aspect x ellipsoid x fixed lattice (|lat| <= 89.9, tmerc within 60 deg, btmerc 3 deg); partial derivatives by 4th order central \
              differences of the real forward operator (8 evaluations per point); conformality |h-k| <= tol*h, orthogonality, orientation, laea area scale, closed forms on the \
              lines/points of true scale. distinct_nontrivial = sampled distinct (h, k) bit patterns");
    rep.assume("numerical differentiation error < 1e-9 relative (step 1e-4 rad, reduced near the poles); conformality tolerance 1e-7 for rigorous, 1e-5 for btmerc/omerc (millimetre-class methods)");
    let ellipsoids: Vec<String> = match tier {
        Tier::Quick => vec!["GRS80".into(), "intl".into(), "sphere".into(), "6378137,150".into(), "CPM".into()],
        Tier::Thorough => {
            let mut v: Vec<String> = crate::props::c01::ellipsoid_names(Tier::Thorough).into_iter().filter(|e| catch(|| Ellipsoid::named(e).is_ok()).unwrap_or(false)).collect();
            v.extend(["6378137,150".to_string(), "6378137,200".to_string(), "6378137,1000".to_string()]);
            v
        }
    };
    rep.set("ellipsoids", json!(ellipsoids));
    let (lat_step, lon_step) = tier.pick((7.5, 15.), (1., 3.));
    let projs = projections();
    let jobs: Vec<(usize, usize)> = (0..projs.len()).flat_map(|i| (0..ellipsoids.len()).map(move |j| (i, j))).collect();
    let outcomes = Mutex::new(HashSet::new());
    let worst: Mutex<BTreeMap<String, f64>> = Mutex::new(BTreeMap::new());
    par_range(jobs.len(), |ji| {
        let (pi, ei) = jobs[ji];
        let p = &projs[pi];
        let ellps = &ellipsoids[ei];
        let Some(ell) = ref_ellipsoid(ellps) else { return };
        let (def, ell) = if p.op == "webmerc" {
            // the default is WGS84; with ellps given, the sphere has that ellipsoid's semi-major axis
            if ei == 0 {
                (p.def.clone(), ref_ellipsoid("WGS84").unwrap())
            } else {
                (p.with_ellps(ellps), ell)
            }
        } else {
            (p.with_ellps(ellps), ell)
        };
        let mut ctx = Minimal::default();
        let op = match catch(|| ctx.op(&def)) {
            Ok(Ok(op)) => op,
            other => {
                rep.violation(&format!("valid parameterisation rejected / {} [{}]", p.op, p.aspect), json!({"def": def, "result": format!("{other:?}").chars().take(200).collect::<String>()}));
                return;
            }
        };
        let pts = lattice(p, lat_step, lon_step);
        if pts.is_empty() {
            return;
        }
        let key = format!("{} [{}]", p.op, p.aspect);
        let tol = if p.class == Class::Approximate { 1e-5 } else { 1e-7 };
        // key policy: the degenerate alpha=90 omerc aspect and points next to a pole get one key each
        let viol = |clause: &str, lat_deg: Option<f64>, detail: serde_json::Value| {
            let k = if p.aspect.contains("alpha=90") {
                format!("defining geometry violated / {key}")
            } else if lat_deg.map(|l| l.abs() >= 89.89).unwrap_or(false) {
                format!("defining geometry violated within 0.11 degrees of a pole / {}", p.op)
            } else {
                format!("{clause} / {key}")
            };
            rep.violation(&k, detail);
        };
        let der = match catch(|| derive(&ctx, op, &ell, &pts)) {
            Ok(d) => d,
            Err(pn) => {
                rep.violation(&format!("panic: {} / {key}", panic_class(&pn)), json!({"def": def, "panic": pn}));
                return;
            }
        };
        rep.eval(pts.len() as u64 * 8);
        // the library's own evaluation of the same factors (Jacobian::new(..).factors(), on the ellipsoid of the
        // projection) against the harness's differentiation, on every seventh lattice point away from the poles
        if let Ok(ellipsoid) = Ellipsoid::named(if p.op == "webmerc" && ei == 0 { "WGS84" } else { ellps.as_str() }) {
            for (pt, d) in pts.iter().zip(der.iter()).step_by(7) {
                if pt[1].abs() > 1.48 || !(d.h.is_finite() && d.k.is_finite()) {
                    continue;
                }
                rep.eval(4);
                let f = match catch(|| Jacobian::new(&ctx, op, [1f64.to_degrees(), 1.], [false, false], ellipsoid, Coor2D::raw(pt[0], pt[1])).map(|j| j.factors())) {
                    Ok(Ok(f)) => f,
                    other => {
                        rep.violation(&format!("the library's Jacobian cannot be evaluated inside the domain / {}", p.op), json!({"def": def, "lon_deg": pt[0].to_degrees(), "lat_deg": pt[1].to_degrees(), "result": format!("{:?}", other.map(|r| r.is_ok()))}));
                        break;
                    }
                };
                let rel = |a: f64, b: f64| (a - b).abs() / b.abs().max(1e-12);
                if rel(f.meridional_scale, d.h) > 2e-6 || rel(f.parallel_scale, d.k) > 2e-6 || rel(f.areal_scale, d.area) > 4e-6 {
                    rep.violation(
                        &format!("the library's own scale factors (Jacobian / Factors) differ from the differentiated projection / {}", p.op),
                        json!({"def": def, "ellps": ellps, "lon_deg": pt[0].to_degrees(), "lat_deg": pt[1].to_degrees(),
                               "library": {"h": f.meridional_scale, "k": f.parallel_scale, "areal": f.areal_scale}, "harness": {"h": d.h, "k": d.k, "areal": d.area}}),
                    );
                    break;
                }
            }
        }
        let mut local = HashSet::new();
        let mut wmax = 0f64;
        for (pt, d) in pts.iter().zip(der.iter()) {
            let at = json!({"def": def, "lon_deg": pt[0].to_degrees(), "lat_deg": pt[1].to_degrees(), "h": d.h, "k": d.k, "cos_angle_between_meridian_and_parallel": d.ortho, "area_scale": d.area});
            if !(d.h.is_finite() && d.k.is_finite()) {
                viol("forward operator not differentiable / NaN inside the domain", Some(pt[1].to_degrees()), at);
                continue;
            }
            if p.conformal {
                let c = (d.h - d.k).abs() / d.h;
                wmax = wmax.max(c).max(d.ortho.abs());
                if c > tol {
                    viol(&format!("not conformal: scale differs along meridian and parallel (> {tol:e})"), Some(pt[1].to_degrees()), at.clone());
                }
                if d.ortho.abs() > tol {
                    viol(&format!("not conformal: meridian and parallel images not orthogonal (> {tol:e})"), Some(pt[1].to_degrees()), at.clone());
                }
            }
            if p.equal_area {
                wmax = wmax.max((d.area - 1.).abs());
                if (d.area - 1.).abs() > tol {
                    viol(&format!("not equal-area: area scale differs from 1 (> {tol:e})"), Some(pt[1].to_degrees()), at.clone());
                }
            }
            if !d.orientation_positive {
                viol("orientation not preserved", Some(pt[1].to_degrees()), at.clone());
            }
            if (pt[0] * 1e3) as i64 % 7 == 0 {
                local.insert(hash_of(&(bits(d.h), bits(d.k))));
            }
        }
        outcomes.lock().unwrap().extend(local);
        {
            let mut w = worst.lock().unwrap();
            let e = w.entry(p.op.to_string()).or_insert(0.);
            *e = e.max(wmax);
        }

        // ---- defining lines and points ----
        let params: BTreeMap<&str, f64> = def.split_whitespace().filter_map(|t| t.split_once('=')).filter_map(|(k, v)| geodesy::prelude::angular::parse_sexagesimal(v).is_finite().then(|| (k, geodesy::prelude::angular::parse_sexagesimal(v)))).collect();
        let get = |k: &str, d: f64| params.get(k).copied().unwrap_or(d);
        let (x0, y0, k0) = (get("x_0", 0.), get("y_0", 0.), get("k_0", 1.));
        let scale_at = |lon: f64, lat: f64| -> (f64, f64) {
            let d = &derive(&ctx, op, &ell, &[[lon.to_radians(), lat.to_radians()]])[0];
            (d.h, d.k)
        };
        let image = |lon: f64, lat: f64| forward(&ctx, op, &[[lon.to_radians(), lat.to_radians()]])[0];
        let check_scale = |what: &str, lon: f64, lat: f64, want: f64| {
            let (h, k) = scale_at(lon, lat);
            rep.eval(8);
            if (k - want).abs() > 10. * tol * want || (p.conformal && (h - want).abs() > 10. * tol * want) {
                viol(&format!("scale on the defining line/point is not the declared one: {what}"), Some(lat), json!({"def": def, "lon_deg": lon, "lat_deg": lat, "h": h, "k": k, "expected": want}));
            }
        };
        let check_origin = |what: &str, lon: f64, lat: f64| {
            let o = image(lon, lat);
            rep.eval(1);
            if (o[0] - x0).abs() > 1e-6 || (o[1] - y0).abs() > 1e-6 {
                viol(&format!("false origin does not map to the projection centre: {what}"), Some(lat), json!({"def": def, "lon_deg": lon, "lat_deg": lat, "image": o, "expected": [x0, y0]}));
            }
        };
        match p.op {
            "merc" => {
                let ts = get("lat_ts", 0.);
                for dl in [-170., -30., 0., 45., 179.] {
                    if ts != 0. {
                        check_scale("unity at lat_ts", p.lon_c + dl, ts, 1.);
                        check_scale("unity at -lat_ts", p.lon_c + dl, -ts, 1.);
                    } else {
                        check_scale("k_0 on the equator", p.lon_c + dl, 0., k0);
                    }
                }
                if get("lat_0", 0.) == 0. {
                    check_origin("(lon_0, 0)", get("lon_0", 0.), 0.);
                }
            }
            "webmerc" => {
                for pt in &pts {
                    let o = forward(&ctx, op, &[*pt])[0];
                    let want = [ell.a * pt[0], ell.a * pt[1].tan().asinh()];
                    rep.eval(1);
                    if (o[0] - want[0]).abs() > 1e-6 || (o[1] - want[1]).abs() > 1e-6 {
                        rep.violation("webmerc is not the spherical Mercator of radius a", json!({"def": def, "lon_deg": pt[0].to_degrees(), "lat_deg": pt[1].to_degrees(), "image": o, "expected": want}));
                        break;
                    }
                }
            }
            "tmerc" | "utm" | "btmerc" | "butm" => {
                let (lon_0, lat_0, k0, y0, x0) = if p.op == "utm" || p.op == "butm" {
                    (p.lon_c, 0., 0.9996, if def.contains("south") { 10_000_000. } else { 0. }, 500_000.)
                } else {
                    (get("lon_0", 0.), get("lat_0", 0.), k0, y0, x0)
                };
                let arc0 = ell.meridian_arc(lat_0.to_radians());
                for lat in [-80., -45., -10.3, 0., 3., 23.4, 55., 66.6, 84.] {
                    check_scale("k_0 along the central meridian", lon_0, lat, k0);
                    let o = image(lon_0, lat);
                    let want = k0 * (ell.meridian_arc(f64::to_radians(lat)) - arc0) + y0;
                    rep.eval(1);
                    let t = if p.class == Class::Approximate { 1e-3 } else { 1e-5 };
                    if (o[1] - want).abs() > t || (o[0] - x0).abs() > 1e-6 {
                        viol(
                            "northing on the central meridian is not the scaled meridian arc from lat_0",
                            Some(lat),
                            json!({"def": def, "lat_deg": lat, "image": o, "expected_northing": want, "expected_easting": x0}),
                        );
                    }
                }
            }
            "lcc" => {
                let l1 = get("lat_1", 0.);
                let l2 = params.get("lat_2").copied().unwrap_or(l1);
                for dl in [-120., 0., 30., 179.] {
                    check_scale("k_0 on the first standard parallel", p.lon_c + dl, l1, k0);
                    check_scale("k_0 on the second standard parallel", p.lon_c + dl, l2, k0);
                }
                let lat_0 = params.get("lat_0").copied();
                if let Some(l0) = lat_0 {
                    check_origin("(lon_0, lat_0)", get("lon_0", 0.), l0);
                }
            }
            "laea" => check_origin("(lon_0, lat_0)", get("lon_0", 0.), get("lat_0", 0.)),
            "somerc" => {
                check_scale("k_0 at the centre", get("lon_0", 0.), get("lat_0", 0.), k0);
                check_origin("(lon_0, lat_0)", get("lon_0", 0.), get("lat_0", 0.));
            }
            "omerc" => {
                check_scale("k_0 at the centre", get("lonc", 0.), get("latc", 0.), k0);
                if def.contains("variant") || !def.contains("gamma_c") {
                    check_origin("variant B / Laborde: (lonc, latc)", get("lonc", 0.), get("latc", 0.));
                } else if get("latc", 0.) == 0. {
                    // variant A: the false origin is the natural origin, where the initial line crosses the
                    // (aposphere) equator - for a centre on the equator that is the centre itself
                    check_origin("variant A with the centre on the equator: (lonc, 0)", get("lonc", 0.), 0.);
                }
            }
            _ => {}
        }
    });
    rep.set("observed_max_conformality_or_area_defect_per_operator", json!(*worst.lock().unwrap()));
    for p in projs.iter().step_by(9) {
        rep.sample(json!({"projection": p.op, "aspect": p.aspect, "def": p.def, "lattice_points": lattice(p, lat_step, lon_step).len()}));
    }
    let o = outcomes.into_inner().unwrap();
    rep.nontrivial_bulk(&o);
    rep.outcomes_bulk(&o);
    rep
}

#[allow(dead_code)]
fn _unused(_: C4) {}
