//! C02 — each tuple is transformed independently of neighbours, order and container.
//!
//! For every catalogue operator/pipeline and direction: ALL ordered sequences over a tuple
//! alphabet (two epochs, NaN epoch, out-of-domain, NaN member, duplicate) up to length L, every
//! contiguous chunking of each, one long cyclic set, all through ONE handle (so every call has a
//! history); reference = each tuple alone on a fresh context. Plus all container types.

use crate::catalog::*;
use crate::engine::*;
use crate::props::c19::UserSet;
use crate::util::{same_bits, to_set};
use geodesy::authoring::*;
use serde_json::json;
use std::collections::HashSet;
use std::sync::Mutex;

fn dirs(e: &Entry) -> Vec<Direction> {
    if e.invertible {
        vec![Fwd, Inv]
    } else {
        vec![Fwd]
    }
}
fn dname(d: &Direction) -> &'static str {
    if *d == Fwd {
        "fwd"
    } else {
        "inv"
    }
}
fn dcopy(d: &Direction) -> Direction {
    if *d == Fwd {
        Fwd
    } else {
        Inv
    }
}

/// reference: the tuple alone, on a fresh context and a fresh operator
fn alone(def: &str, dir: &Direction, t: C4) -> Result<(usize, C4), String> {
    let mut ctx = Plain::new();
    let op = ctx.op(def).map_err(|e| e.to_string())?;
    let mut data = [Coor4D(t)];
    let n = ctx.apply(op, dcopy(dir), &mut data).map_err(|e| e.to_string())?;
    Ok((n, data[0].0))
}

fn check_entry(rep: &Report, e: &Entry, max_len: usize, alphabet_size: usize, outcomes: &Mutex<HashSet<u64>>) {
    let alphabet: Vec<C4> = tuple_alphabet(e.input).into_iter().take(alphabet_size).collect();
    let na = alphabet.len();
    let mut ctx = Plain::new();
    let op = match catch(|| ctx.op(e.def)) {
        Ok(Ok(op)) => op,
        other => {
            rep.machinery_error(format!("catalogue entry does not instantiate: {} ({other:?})", e.def));
            return;
        }
    };
    for dir in dirs(e) {
        let dn = dname(&dir);
        // references
        let mut refs: Vec<(usize, C4)> = Vec::new();
        for t in &alphabet {
            match catch(|| alone(e.def, &dir, *t)) {
                Ok(Ok(r)) => refs.push(r),
                Ok(Err(er)) => {
                    rep.machinery_error(format!("reference failed for {}: {er}", e.def));
                    return;
                }
                Err(p) => {
                    rep.violation(&format!("panic on a single tuple: {} / {}", panic_class(&p), e.def), json!({"def": e.def, "direction": dn, "tuple": format!("{t:?}"), "panic": p}));
                    return;
                }
            }
        }
        let report = |clause: &str, seq: &[usize], chunks: &[usize], got: &dyn std::fmt::Debug, pos: usize| {
            // key: clause + operator; the first failing sequence is kept as the witness
            rep.violation(
                &format!("{clause} / {} [{dn}]", e.def),
                json!({"def": e.def, "direction": dn, "sequence": seq.iter().map(|&i| format!("{:?}", alphabet[i])).collect::<Vec<_>>(), "chunk_lengths": chunks,
                       "position": pos, "observed": format!("{got:?}"), "expected_alone": format!("{:?}", refs[seq[pos.min(seq.len().saturating_sub(1))]])}),
            );
        };
        // all sequences of length 0..max_len, every contiguous chunking
        for len in 0..=max_len {
            let total = na.pow(len as u32);
            for si in 0..total {
                let seq = decode(si, &vec![na; len]);
                let nchunk = if len == 0 { 1 } else { 1usize << (len - 1) };
                for mask in 0..nchunk {
                    // chunk boundaries after position k when bit k of mask is set
                    let mut chunks: Vec<usize> = Vec::new();
                    let mut cur = 0;
                    for k in 0..len {
                        cur += 1;
                        if k + 1 == len || mask & (1 << k) != 0 {
                            chunks.push(cur);
                            cur = 0;
                        }
                    }
                    rep.eval(1);
                    rep.state(1);
                    rep.transition(chunks.len() as u64);
                    let mut pos = 0;
                    let mut total_count = 0usize;
                    let mut bad = false;
                    for &cl in &chunks {
                        let mut data: Vec<Coor4D> = seq[pos..pos + cl].iter().map(|&i| Coor4D(alphabet[i])).collect();
                        let n = match catch(|| ctx.apply(op, dcopy(&dir), &mut data)) {
                            Ok(Ok(n)) => n,
                            Ok(Err(er)) => {
                                report(&format!("apply failed: {er}"), &seq, &chunks, &"", pos);
                                bad = true;
                                break;
                            }
                            Err(p) => {
                                report(&format!("panic in apply: {}", panic_class(&p)), &seq, &chunks, &p, pos);
                                bad = true;
                                break;
                            }
                        };
                        total_count += n;
                        for (k, c) in data.iter().enumerate() {
                            let want = refs[seq[pos + k]].1;
                            if bits4(c.0) != bits4(want) {
                                report("tuple result depends on its neighbours, order, chunking or call history", &seq, &chunks, &c.0, pos + k);
                                bad = true;
                                break;
                            }
                        }
                        if bad {
                            break;
                        }
                        pos += cl;
                    }
                    if bad {
                        continue;
                    }
                    if len == 0 {
                        // empty set: count must be 0
                        let mut data: Vec<Coor4D> = vec![];
                        match catch(|| ctx.apply(op, dcopy(&dir), &mut data)) {
                            Ok(Ok(0)) => {}
                            other => report("empty set does not give count 0", &seq, &chunks, &other, 0),
                        }
                    }
                    if e.elementary {
                        let want: usize = seq.iter().map(|&i| refs[i].0).sum();
                        if total_count != want {
                            report("success count of the whole is not the sum over its parts", &seq, &chunks, &total_count, 0);
                        }
                    }
                    rep.trace(1);
                }
                if si % 257 == 0 {
                    outcomes.lock().unwrap().insert(hash_of(&(e.def, dn, &seq)));
                }
            }
        }
        // one long set cycling through the alphabet
        let n_long = 100_000;
        let mut data: Vec<Coor4D> = (0..n_long).map(|i| Coor4D(alphabet[(i * 7 + i / 13) % na])).collect();
        rep.eval(1);
        match catch(|| ctx.apply(op, dcopy(&dir), &mut data)) {
            Ok(Ok(n)) => {
                let mut want_n = 0;
                for (i, c) in data.iter().enumerate() {
                    let k = (i * 7 + i / 13) % na;
                    want_n += refs[k].0;
                    if bits4(c.0) != bits4(refs[k].1) {
                        rep.violation(
                            &format!("tuple result depends on its neighbours, order, chunking or call history / {} [{dn}]", e.def),
                            json!({"def": e.def, "direction": dn, "set": "100000 tuples cycling through the alphabet", "index": i, "observed": format!("{:?}", c.0), "expected_alone": format!("{:?}", refs[k].1)}),
                        );
                        break;
                    }
                }
                if e.elementary && n != want_n {
                    rep.violation(&format!("success count of the whole is not the sum over its parts / {} [{dn}]", e.def), json!({"def": e.def, "direction": dn, "set": "100000 tuples", "count": n, "expected": want_n}));
                }
            }
            other => rep.violation(&format!("apply fails on a long set / {} [{dn}]", e.def), json!({"def": e.def, "result": format!("{other:?}").chars().take(200).collect::<String>()})),
        }
        rep.sample(json!({"def": e.def, "direction": dn, "alphabet": alphabet.iter().map(|t| format!("{t:?}")).collect::<Vec<_>>(), "alone": refs.iter().map(|r| format!("{r:?}")).collect::<Vec<_>>()}));
    }
    // the handle after all that history behaves like a freshly instantiated twin
    let mut twin_ctx = Plain::new();
    if let Ok(twin) = twin_ctx.op(e.def) {
        let probe: Vec<C4> = alphabet.clone();
        for dir in dirs(e) {
            let a = crate::util::apply(&ctx, op, dcopy(&dir), &probe);
            let b = crate::util::apply(&twin_ctx, twin, dcopy(&dir), &probe);
            if a.0 != b.0 || !same_bits(&a.1, &b.1) {
                rep.violation(&format!("operator changed by its application history / {}", e.def), json!({"def": e.def, "used": format!("{a:?}"), "fresh": format!("{b:?}")}));
            }
        }
    }
}

/// Containers: the same tuples presented through every supported container
fn containers(rep: &Report, e: &Entry) {
    let alphabet = tuple_alphabet(e.input);
    // f32-exact variants for Coor32
    let mut ctx = Plain::new();
    let Ok(op) = ctx.op(e.def) else { return };
    for dir in dirs(e) {
        let dn = dname(&dir);
        let reference = |t: C4| -> C4 {
            let mut d = [Coor4D(t)];
            let _ = ctx.apply(op, dcopy(&dir), &mut d);
            d[0].0
        };
        let judge = |name: &str, stored: usize, f32s: bool, inputs: &[C4], got: &[C4]| {
            rep.eval(1);
            for (i, t) in inputs.iter().enumerate() {
                let want = reference(*t);
                for k in 0..stored {
                    let (w, g) = if f32s { ((want[k] as f32) as f64, got[i][k]) } else { (want[k], got[i][k]) };
                    if bits(w) != bits(g) {
                        // pipelines store their intermediate results in the caller's container: one key per
                        // kind of loss and definition (a coarser key would hide any new container defect of another pipeline)
                        let key = if !e.elementary && (stored < 4 || f32s) {
                            format!("pipeline through a container storing {} loses intermediate results / {}", if f32s { "32 bit values".to_string() } else { format!("{stored} dimensions") }, e.def)
                        } else {
                            format!("container {name} gives a different value than the 4D tuple / {} [{dn}]", e.def)
                        };
                        rep.violation(
                            &key,
                            json!({"def": e.def, "direction": dn, "container": name, "tuple_as_seen_by_the_operator": format!("{t:?}"), "element": k, "observed": g, "expected": w}),
                        );
                        return;
                    }
                }
            }
        };
        let a3: Vec<C4> = alphabet.iter().take(3).copied().collect();
        // 4D containers
        {
            let mut v = to_set(&a3);
            let _ = ctx.apply(op, dcopy(&dir), &mut v);
            judge("Vec<Coor4D>", 4, false, &a3, &v.iter().map(|c| c.0).collect::<Vec<_>>());
            let mut arr = [Coor4D(a3[0]), Coor4D(a3[1]), Coor4D(a3[2])];
            let _ = ctx.apply(op, dcopy(&dir), &mut arr);
            judge("[Coor4D; 3]", 4, false, &a3, &arr.iter().map(|c| c.0).collect::<Vec<_>>());
            let mut v = to_set(&a3);
            let mut s: &mut [Coor4D] = &mut v[..];
            let _ = ctx.apply(op, dcopy(&dir), &mut s);
            judge("&mut [Coor4D]", 4, false, &a3, &v.iter().map(|c| c.0).collect::<Vec<_>>());
            let mut u = UserSet(a3.clone());
            let _ = ctx.apply(op, dcopy(&dir), &mut u);
            judge("user container", 4, false, &a3, &u.0);
        }
        // 3D: epoch NaN, and with a fixed epoch adapter
        for t_fixed in [f64::NAN, 2001., 2002.5] {
            let seen: Vec<C4> = a3.iter().map(|t| [t[0], t[1], t[2], t_fixed]).collect();
            let mk = || a3.iter().map(|t| Coor3D([t[0], t[1], t[2]])).collect::<Vec<_>>();
            let out: Vec<C4>;
            if t_fixed.is_nan() {
                let mut v = mk();
                let _ = ctx.apply(op, dcopy(&dir), &mut v);
                out = v.iter().map(|c| [c.0[0], c.0[1], c.0[2], 0.]).collect();
                judge("Vec<Coor3D>", 3, false, &seen, &out);
                let mut arr = [Coor3D([a3[0][0], a3[0][1], a3[0][2]]), Coor3D([a3[1][0], a3[1][1], a3[1][2]]), Coor3D([a3[2][0], a3[2][1], a3[2][2]])];
                let _ = ctx.apply(op, dcopy(&dir), &mut arr);
                judge("[Coor3D; 3]", 3, false, &seen, &arr.iter().map(|c| [c.0[0], c.0[1], c.0[2], 0.]).collect::<Vec<_>>());
            } else {
                let mut p = (mk(), t_fixed);
                let _ = ctx.apply(op, dcopy(&dir), &mut p);
                out = p.0.iter().map(|c| [c.0[0], c.0[1], c.0[2], 0.]).collect();
                judge("(Vec<Coor3D>, t)", 3, false, &seen, &out);
            }
        }
        // 2D: height 0 / epoch NaN, and with fixed height + epoch
        for (h, t_fixed) in [(0., f64::NAN), (10., 2001.), (-5.5, 2002.5)] {
            let seen: Vec<C4> = a3.iter().map(|t| [t[0], t[1], h, t_fixed]).collect();
            let mk = || a3.iter().map(|t| Coor2D([t[0], t[1]])).collect::<Vec<_>>();
            if t_fixed.is_nan() {
                let mut v = mk();
                let _ = ctx.apply(op, dcopy(&dir), &mut v);
                judge("Vec<Coor2D>", 2, false, &seen, &v.iter().map(|c| [c.0[0], c.0[1], 0., 0.]).collect::<Vec<_>>());
                let mut v = mk();
                let mut s: &mut [Coor2D] = &mut v[..];
                let _ = ctx.apply(op, dcopy(&dir), &mut s);
                judge("&mut [Coor2D]", 2, false, &seen, &v.iter().map(|c| [c.0[0], c.0[1], 0., 0.]).collect::<Vec<_>>());
            } else {
                let mut p = (mk(), h, t_fixed);
                let _ = ctx.apply(op, dcopy(&dir), &mut p);
                judge("(Vec<Coor2D>, h, t)", 2, false, &seen, &p.0.iter().map(|c| [c.0[0], c.0[1], 0., 0.]).collect::<Vec<_>>());
            }
        }
        // 32 bit: inputs are made f32-exact first
        {
            let seen: Vec<C4> = a3.iter().map(|t| [(t[0] as f32) as f64, (t[1] as f32) as f64, 0., f64::NAN]).collect();
            let mut v: Vec<Coor32> = a3.iter().map(|t| Coor32([t[0] as f32, t[1] as f32])).collect();
            let _ = ctx.apply(op, dcopy(&dir), &mut v);
            judge("Vec<Coor32>", 2, true, &seen, &v.iter().map(|c| [c.0[0] as f64, c.0[1] as f64, 0., 0.]).collect::<Vec<_>>());
        }
    }
}

pub fn run(tier: Tier) -> Report {
    let rep = Report::new("C02", tier, "model_checking");
    rep.rule("for each catalogue operator/pipeline and direction: every ordered sequence over the tuple alphabet up to length L x every contiguous chunking, one 100000-tuple set, \
              all through one handle; reference = every tuple alone on a fresh context (bit-identical). A state is (sequence, chunking) reached through the real apply; \
              non-trivial/distinct = sampled distinct (operator, direction, sequence) hashes");
    rep.assume("NaN bit patterns are canonicalised; pipelines are exempt from the count-additivity clause (the property states it for elementary operators)");
    let wd = crate::util::enter_private_workdir();
    install_grids(&wd);
    let cat = catalogue();
    let (max_len, alpha) = match tier {
        Tier::Quick => (4, 7),
        Tier::Thorough => (5, 9),
    };
    rep.set("max_sequence_length", json!(max_len));
    rep.set("tuple_alphabet_size", json!(alpha));
    rep.set("operators", json!(cat.iter().map(|e| e.def).collect::<Vec<_>>()));
    let outcomes = Mutex::new(HashSet::new());
    par_range(cat.len(), |i| {
        check_entry(&rep, &cat[i], max_len, alpha, &outcomes);
        match catch(|| containers(&rep, &cat[i])) {
            Ok(()) => {}
            Err(p) => rep.violation(&format!("panic with a container: {} / {}", panic_class(&p), cat[i].def), json!({"def": cat[i].def, "panic": p})),
        }
    });
    let o = outcomes.into_inner().unwrap();
    rep.nontrivial_bulk(&o);
    rep.outcomes_bulk(&o);
    Plain::clear_grids();
    crate::util::leave_private_workdir(&wd);
    rep
}
