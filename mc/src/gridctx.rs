//! A Context serving in-memory grids (pattern of the repository's tests/maximal.rs)
#![allow(dead_code)]
use geodesy::authoring::*;
use std::sync::Arc;

#[derive(Debug, Default)]
pub struct GridCtx {
    constructors: BTreeMap<String, OpConstructor>,
    resources: BTreeMap<String, String>,
    operators: BTreeMap<OpHandle, Op>,
    pub grids: BTreeMap<String, Arc<dyn Grid>>,
}

impl GridCtx {
    pub fn add_grid(&mut self, name: &str, grid: Arc<dyn Grid>) {
        self.grids.insert(name.to_string(), grid);
    }
}

impl Context for GridCtx {
    fn new() -> GridCtx {
        let mut ctx = GridCtx::default();
        for item in BUILTIN_ADAPTORS {
            ctx.register_resource(item.0, item.1);
        }
        ctx
    }
    fn op(&mut self, definition: &str) -> Result<OpHandle, Error> {
        let op = Op::new(definition, self)?;
        let id = op.id;
        self.operators.insert(id, op);
        Ok(id)
    }
    fn apply(&self, op: OpHandle, direction: Direction, operands: &mut dyn CoordinateSet) -> Result<usize, Error> {
        let op = self.operators.get(&op).ok_or(Error::General("GridCtx: unknown operator id"))?;
        Ok(op.apply(self, operands, direction))
    }
    fn globals(&self) -> BTreeMap<String, String> {
        BTreeMap::from([("ellps".to_string(), "GRS80".to_string())])
    }
    fn steps(&self, op: OpHandle) -> Result<&Vec<String>, Error> {
        let op = self.operators.get(&op).ok_or(Error::General("GridCtx: unknown operator id"))?;
        Ok(&op.descriptor.steps)
    }
    fn params(&self, op: OpHandle, index: usize) -> Result<ParsedParameters, Error> {
        let op = self.operators.get(&op).ok_or(Error::General("GridCtx: unknown operator id"))?;
        if op.steps.is_empty() {
            return Ok(op.params.clone());
        }
        op.steps.get(index).map(|s| s.params.clone()).ok_or(Error::General("GridCtx: bad step index"))
    }
    fn register_op(&mut self, name: &str, constructor: OpConstructor) {
        self.constructors.insert(String::from(name), constructor);
    }
    fn register_resource(&mut self, name: &str, definition: &str) {
        self.resources.insert(String::from(name), String::from(definition));
    }
    fn get_op(&self, name: &str) -> Result<OpConstructor, Error> {
        self.constructors.get(name).map(|c| OpConstructor(c.0)).ok_or(Error::NotFound(name.to_string(), ": user defined constructor".to_string()))
    }
    fn get_resource(&self, name: &str) -> Result<String, Error> {
        self.resources.get(name).cloned().ok_or(Error::NotFound(name.to_string(), ": user defined resource".to_string()))
    }
    fn get_blob(&self, name: &str) -> Result<Vec<u8>, Error> {
        Err(Error::NotFound(name.to_string(), ": blob".to_string()))
    }
    fn get_grid(&self, name: &str) -> Result<Arc<dyn Grid>, Error> {
        self.grids.get(name).cloned().ok_or(Error::NotFound(name.to_string(), ": grid".to_string()))
    }
}
