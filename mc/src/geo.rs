//! The harness's own geodesy: ellipsoid radii, ground distances, lattices, reference ellipsoid table
#![allow(dead_code)]
use std::f64::consts::PI;

#[derive(Clone, Copy, Debug)]
pub struct Ell {
    pub a: f64,
    pub f: f64,
}

impl Ell {
    pub fn es(&self) -> f64 {
        self.f * (2. - self.f)
    }
    pub fn b(&self) -> f64 {
        self.a * (1. - self.f)
    }
    /// meridian radius of curvature
    pub fn m(&self, lat: f64) -> f64 {
        let s = lat.sin();
        self.a * (1. - self.es()) / (1. - self.es() * s * s).powf(1.5)
    }
    /// prime vertical radius of curvature
    pub fn n(&self, lat: f64) -> f64 {
        let s = lat.sin();
        self.a / (1. - self.es() * s * s).sqrt()
    }
    /// ground distance (m) between two nearby geographic positions (lon, lat in radians)
    pub fn ground(&self, lon1: f64, lat1: f64, lon2: f64, lat2: f64) -> f64 {
        let mut dl = (lon2 - lon1) % (2. * PI);
        if dl > PI {
            dl -= 2. * PI;
        }
        if dl < -PI {
            dl += 2. * PI;
        }
        let latm = 0.5 * (lat1 + lat2);
        let dn = self.m(latm) * (lat2 - lat1);
        // at the poles the longitude is irrelevant: use the smaller parallel radius
        let r = self.n(lat1) * lat1.cos().abs().min(lat2.cos().abs());
        let de = r * dl;
        de.hypot(dn)
    }
    /// meridian arc from the equator by Gauss-Legendre quadrature (independent of the library's series)
    pub fn meridian_arc(&self, lat: f64) -> f64 {
        // 32 panels x 8-point Gauss-Legendre
        const X: [f64; 4] = [0.1834346424956498, 0.5255324099163290, 0.7966664774136267, 0.9602898564975363];
        const W: [f64; 4] = [0.3626837833783620, 0.3137066458778873, 0.2223810344533745, 0.1012285362903763];
        let panels = 32;
        let h = lat / panels as f64;
        let mut sum = 0.;
        for p in 0..panels {
            let c = (p as f64 + 0.5) * h;
            for k in 0..4 {
                sum += W[k] * (self.m(c + 0.5 * h * X[k]) + self.m(c - 0.5 * h * X[k]));
            }
        }
        sum * 0.5 * h
    }
    pub fn geo_to_cart(&self, lon: f64, lat: f64, h: f64) -> [f64; 3] {
        let n = self.n(lat);
        [(n + h) * lat.cos() * lon.cos(), (n + h) * lat.cos() * lon.sin(), (n * (1. - self.es()) + h) * lat.sin()]
    }
}

/// PROJ's ellipsoid list (name, a, rf), transcribed independently of the library's table
pub const REF_ELLIPSOIDS: [(&str, f64, f64); 47] = [
    ("MERIT", 6378137.0, 298.257),
    ("SGS85", 6378136.0, 298.257),
    ("GRS80", 6378137.0, 298.257222101),
    ("IAU76", 6378140.0, 298.257),
    ("airy", 6377563.396, 299.3249646),
    ("APL4.9", 6378137.0, 298.25),
    ("NWL9D", 6378145.0, 298.25),
    ("mod_airy", 6377340.189, 299.3249373654824),
    ("andrae", 6377104.43, 300.0),
    ("danish", 6377019.2563, 300.0),
    ("aust_SA", 6378160.0, 298.25),
    ("GRS67", 6378160.0, 298.2471674270),
    ("GSK2011", 6378136.5, 298.2564151),
    ("bessel", 6377397.155, 299.1528128),
    ("bess_nam", 6377483.865, 299.1528128),
    ("clrk66", 6378206.4, 294.9786982138982),
    ("clrk80", 6378249.145, 293.4663),
    ("clrk80ign", 6378249.2, 293.4660212936269),
    ("CPM", 6375738.7, 334.29),
    ("delmbr", 6376428.0, 311.5),
    ("engelis", 6378136.05, 298.2566),
    ("evrst30", 6377276.345, 300.8017),
    ("evrst48", 6377304.063, 300.8017),
    ("evrst56", 6377301.243, 300.8017),
    ("evrst69", 6377295.664, 300.8017),
    ("evrstSS", 6377298.556, 300.8017),
    ("fschr60", 6378166.0, 298.3),
    ("fschr60m", 6378155.0, 298.3),
    ("fschr68", 6378150.0, 298.3),
    ("helmert", 6378200.0, 298.3),
    ("hough", 6378270.0, 297.0),
    ("intl", 6378388.0, 297.0),
    ("krass", 6378245.0, 298.3),
    ("kaula", 6378163.0, 298.24),
    ("lerch", 6378139.0, 298.257),
    ("mprts", 6397300.0, 191.0),
    ("new_intl", 6378157.5, 298.24961539),
    ("plessis", 6376523.0, 308.64099709),
    ("PZ90", 6378136.0, 298.25784),
    ("SEasia", 6378155.0, 298.3000002408657),
    ("walbeck", 6376896.0, 302.78000018165636),
    ("WGS60", 6378165.0, 298.3),
    ("WGS66", 6378145.0, 298.25),
    ("WGS72", 6378135.0, 298.26),
    ("WGS84", 6378137.0, 298.257223563),
    ("sphere", 6370997.0, 0.0),
    ("unitsphere", 1.0, 0.0),
];

pub fn ref_ellipsoid(name: &str) -> Option<Ell> {
    if let Some((_, a, rf)) = REF_ELLIPSOIDS.iter().find(|e| e.0 == name) {
        return Some(Ell { a: *a, f: if *rf == 0. { 0. } else { 1. / rf } });
    }
    // "a,rf" form
    let parts: Vec<&str> = name.split(',').collect();
    if parts.len() == 2 {
        let a: f64 = parts[0].trim().parse().ok()?;
        let rf: f64 = parts[1].trim().parse().ok()?;
        return Some(Ell { a, f: if rf == 0. { 0. } else { 1. / rf } });
    }
    None
}

/// Latitude lattice (degrees): special points plus a uniform step
pub fn lat_lattice(step: f64, max_abs: f64) -> Vec<f64> {
    let mut v: Vec<f64> = vec![0.];
    // (the polar caps get a ladder of their own: formulas that are fine at 89.9 degrees may lose a digit for every nine)
    for s in [90., 89.99999, 89.9999, 89.999, 89.99, 89.9, 85., 80.7, 66.6, 45., 23.4, 10.3, 1e-9] {
        v.push(s);
        v.push(-s);
    }
    let mut x = -90.;
    while x <= 90. + 1e-9 {
        v.push(x);
        x += step;
    }
    v.retain(|l| l.abs() <= max_abs + 1e-12);
    v.sort_by(|a, b| a.partial_cmp(b).unwrap());
    v.dedup_by(|a, b| (*a - *b).abs() < 1e-12);
    v
}

/// Longitude offsets from the centre (degrees): special points plus a uniform step
pub fn dlon_lattice(step: f64, max_abs: f64) -> Vec<f64> {
    let mut v: Vec<f64> = vec![0.];
    for s in [1e-9, 0.7, 3., 15.2, 30., 60., 89.9, 120., 150., 179.9, 180.] {
        v.push(s);
        v.push(-s);
    }
    let mut x = -180.;
    while x <= 180. + 1e-9 {
        v.push(x);
        x += step;
    }
    v.retain(|l| l.abs() <= max_abs + 1e-12);
    v.sort_by(|a, b| a.partial_cmp(b).unwrap());
    v.dedup_by(|a, b| (*a - *b).abs() < 1e-12);
    v
}

/// spherical angular distance (degrees) between two positions given in degrees
pub fn angular_distance(lat1: f64, lon1: f64, lat2: f64, lon2: f64) -> f64 {
    let (p1, p2) = (lat1.to_radians(), lat2.to_radians());
    let dl = (lon2 - lon1).to_radians();
    let c = p1.sin() * p2.sin() + p1.cos() * p2.cos() * dl.cos();
    c.clamp(-1., 1.).acos().to_degrees()
}

/// longitude in degrees wrapped into (-180, 180]
pub fn wrap180(lon: f64) -> f64 {
    let mut l = lon % 360.;
    if l > 180. {
        l -= 360.;
    }
    if l <= -180. {
        l += 360.;
    }
    l
}
