#!/bin/bash
# repo_commit.sh <message-file> — commits /repo's working tree changes with the given message, but only
# after the repository's own suite (hooks off) has passed. (Never pipe repo_test.sh into tail before '&&':
# the status would be tail's.)
set -u
msg="$1"
cd /repo || exit 2
if /verif/tools/repo_test.sh > /tmp/repo_test.$$.log 2>&1; then
  tail -1 /tmp/repo_test.$$.log; rm -f /tmp/repo_test.$$.log
  git commit -qa -F "$msg" && git log --oneline | head -1
else
  echo "REPO SUITE FAILS — not committed"; grep -E "FAILED|panicked" /tmp/repo_test.$$.log | head; rm -f /tmp/repo_test.$$.log; exit 1
fi
