#!/bin/bash
# seed_refresh.sh <shard> <nshards> "<changed checks>" <new-suffix>
# After some checks have changed and new seeded changes have been added: re-runs the changed checks against every
# older live change, and all checks against the new ones (names ending in <new-suffix>). Rows go to
# seeded/MATRIX.quick.refresh.<shard>.txt; merge them over seeded/MATRIX.quick.txt (newer rows replace older ones).
set -u
shard="$1"; nshards="$2"; changed="$3"; suffix="$4"
ROOT="$(cd "$(dirname "$0")/.." && pwd)"
cd "$ROOT"
if [ -n "${VP_RUN_REPO:-}" ]; then
  export VERIF_REPO="$VP_RUN_REPO"
  sed -i "s#path = \"/repo\"#path = \"$VP_RUN_REPO\"#" mc/Cargo.toml
  sed -i "s#/verif/target#$ROOT/target#" mc/.cargo/config.toml
fi
all=$(python3 -c "import json;print(' '.join(c['property_id'] for c in json.load(open('MANIFEST.json'))['checks']))")
out=$ROOT/seeded/MATRIX.quick.refresh.$shard.txt
: > "$out"
k=0
for d in $ROOT/seeded/*/; do
  name=$(basename "$d")
  [ -f "$d/patch.diff" ] || continue
  grep -q '"superseded"' "$d/meta.json" 2>/dev/null && continue
  k=$((k+1))
  [ $((k % nshards)) -ne "$shard" ] && continue
  # NEW_NAMES="F17 F18": changes to be treated as new, whatever their suffix
  if [ -n "${NEW_NAMES:-}" ] && echo " $NEW_NAMES " | grep -q " $name "; then
    tools/seed_run.sh "$name" quick $all 2>&1 | grep " exit=" >> "$out"; continue
  fi
  case "$name" in
    *$suffix) tools/seed_run.sh "$name" quick $all 2>&1 | grep " exit=" >> "$out" ;;
    *)        tools/seed_run.sh "$name" quick $changed 2>&1 | grep " exit=" >> "$out" ;;
  esac
done
echo "repo commit: $(git -C "${VERIF_REPO:-/repo}" log --oneline -1)" >> "$out.commit"
