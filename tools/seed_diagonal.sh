#!/bin/bash
# seed_diagonal.sh [tier] — runs, for every seeded change, the check of the property it breaks (one change at a
# time, applied to the repository's working tree and undone straight afterwards) and writes seeded/DIAGONAL.md.
# About 20 s per change at the quick tier; the repository must be clean and must not be used meanwhile.
set -u
tier="${1:-quick}"
ROOT="$(cd "$(dirname "$0")/.." && pwd)"
cd "$ROOT"
if [ -n "${VP_RUN_REPO:-}" ]; then
  export VERIF_REPO="$VP_RUN_REPO"
  sed -i "s#path = \"/repo\"#path = \"$VP_RUN_REPO\"#" mc/Cargo.toml
  sed -i "s#/verif/target#$ROOT/target#" mc/.cargo/config.toml
fi
out=$ROOT/seeded/DIAGONAL.$tier.txt
: > "$out"
for d in $ROOT/seeded/*/; do
  name=$(basename "$d")
  [ -f "$d/patch.diff" ] || continue
  if grep -q '"superseded"' "$d/meta.json" 2>/dev/null; then echo "$name - $tier superseded" >> "$out"; continue; fi
  prop=$(python3 -c "import json,sys;m=json.load(open('$d/meta.json'));print(m.get('own_check') or m['breaks_property'])")
  # DIAG_NAMES="F17 F18": only these changes
  if [ -n "${DIAG_NAMES:-}" ] && ! echo " $DIAG_NAMES " | grep -q " $name "; then continue; fi
  # DIAG_ONLY="C04 C08": only changes whose own check is one of these (after a change to those checks)
  if [ -n "${DIAG_ONLY:-}" ] && ! echo " $DIAG_ONLY " | grep -q " $prop "; then continue; fi
  tools/seed_run.sh "$name" "$tier" $prop 2>&1 | grep " exit=" >> "$out"
done
python3 - "$out" "$tier" "$ROOT" <<'PY'
import sys
rows=[l.split() for l in open(sys.argv[1]) if l.strip()]
with open(sys.argv[3]+'/seeded/DIAGONAL.md','w') as f:
    f.write(f"# Every seeded change against the check of its own property ({sys.argv[2]} tier)\n\n")
    f.write("Commit of /repo: see the line at the end. Cell: number of VIOLATION lines; 'superseded' = overtaken by a library fix (see meta.json).\n\n| seed | check | result |\n|---|---|---|\n")
    miss=0
    for r in rows:
        if r[3]=='superseded':
            f.write(f"| {r[0]} | - | superseded |\n"); continue
        ex=r[3].split('=')[1]; vi=r[4].split('=')[1]
        res = f"{vi} violation lines" if ex=='1' else ('NOT REPORTED' if ex=='0' else 'machinery exit '+ex)
        if ex!='1': miss+=1
        f.write(f"| {r[0]} | {r[1]} | {res} |\n")
    f.write(f"\n{len(rows)} seeded changes, {miss} not reported by their own check.\n")
print(open(sys.argv[3]+'/seeded/DIAGONAL.md').read()[-80:])
PY
echo "repo commit: $(git -C "${VERIF_REPO:-/repo}" log --oneline -1)" >> $ROOT/seeded/DIAGONAL.md
