#!/bin/bash
# seed_run.sh <name> <tier> <Cxx> [<Cxx> ...]
# Applies /verif/seeded/<name>/patch.diff to /repo's working tree, runs the given checks,
# and undoes the change straight afterwards. Prints one line per check:
#   <name> <check> <tier> exit=<code> violations=<n>
# Evidence files are restored afterwards (evidence committed must come from the unchanged tree).
set -u
name="$1"; tier="$2"; shift 2
p=/verif/seeded/$name/patch.diff
cd /verif
[ -z "$(git -C /repo status --porcelain)" ] || { echo "/repo not clean"; exit 2; }
git -C /repo apply "$p" || { echo "patch does not apply"; exit 2; }
trap 'git -C /repo checkout -- . ; git -C /verif checkout -- evidence 2>/dev/null' EXIT
mkdir -p /verif/seeded/$name/runs
for c in "$@"; do
  log=/verif/seeded/$name/runs/$c.$tier.log
  ./check "$c" "$tier" > "$log" 2>&1
  code=$?
  n=$(grep -c "^VIOLATION" "$log")
  echo "$name $c $tier exit=$code violations=$n"
  grep "^VIOLATION" "$log" | head -3
done
