#!/bin/bash
# seed_run.sh <name> <tier> <Cxx> [<Cxx> ...]
# Applies seeded/<name>/patch.diff to the repository's working tree (/repo, or $VERIF_REPO when the
# tooling itself runs from a snapshot), runs the given checks, and undoes the change straight
# afterwards. Prints one line per check:
#   <name> <check> <tier> exit=<code> violations=<n>
# Evidence files are restored afterwards (evidence committed must come from the unchanged tree).
set -u
ROOT="$(cd "$(dirname "$0")/.." && pwd)"
REPO="${VERIF_REPO:-/repo}"
name="$1"; tier="$2"; shift 2
p=$ROOT/seeded/$name/patch.diff
cd "$ROOT"
git -C "$REPO" apply --check "$p" 2>/dev/null || { echo "$name: patch does not apply (repository not clean, or the code moved)"; exit 2; }
git -C "$REPO" apply "$p" || exit 2
trap 'git -C "$REPO" apply -R "$p"; git -C "$ROOT" checkout -- evidence 2>/dev/null' EXIT
mkdir -p "$ROOT/seeded/$name/runs"
for c in "$@"; do
  log=$ROOT/seeded/$name/runs/$c.$tier.log
  ./check "$c" "$tier" > "$log" 2>&1
  code=$?
  n=$(grep -c "^VIOLATION" "$log")
  echo "$name $c $tier exit=$code violations=$n"
  grep "^VIOLATION" "$log" | head -3
done
