#!/bin/bash
# seed_store11.sh <Fxx> <Cxx: property broken> "<change, one line>" "<needs to manifest, one line>"
# round 11 (file-targeted): confirm the change left in /tmp/seed11/<Fxx>, store it as seeded/<Fxx>, write meta.json, drop the worktree
set -u
id="$1"; name="$1"; prop="$2"
SEED_BASE=/tmp/seed11 /verif/tools/seed_confirm.sh "$id" "$name" || { echo "NOT CONFIRMED: $id"; exit 1; }
python3 - "$id" "$prop" "$3" "$4" <<'PY'
import json,sys
name,prop,change,needs=sys.argv[1:5]
conf=open(f'/verif/seeded/{name}/confirm.log').read().strip().splitlines()[-1]
a=json.load(open('/verif/seeded/round11_assignments.json'))[name]
m={"id":name,"breaks_property":prop,"round":11,"change":change,"needs_to_manifest":needs,
"assigned_files":a["files"],"listed_properties":a["properties"],
"origin":f"fresh sub-agent given the texts of the properties anchored in its assigned source files (files no earlier seeded change had touched, or barely), and a scratch worktree of /repo HEAD under /tmp/seed11/{name}",
"confirmed_by":f"SEED_BASE=/tmp/seed11 tools/seed_confirm.sh {name} {name} in the scratch worktree: (1) cargo test --workspace --no-fail-fast --offline with the change and the demonstration moved aside, (2) cargo test --offline --test seed_demo with the change, (3) the same after git apply -R of the change",
"confirmation":conf,
"files":{"patch":"patch.diff","demonstration":"seed_demo.rs (an integration test: copy to tests/seed_demo.rs)","agent_notes":"SEED.md","confirm_log":"confirm.log"},
"how_to_run_checks":f"tools/seed_run.sh {name} quick {prop}   # git -C /repo apply, ./check, undo",
"detected_by":"see DESIGN.md section 8 (round 11)"}
json.dump(m,open(f'/verif/seeded/{name}/meta.json','w'),indent=1)
PY
git -C /repo worktree remove --force /tmp/seed11/$id && git -C /repo worktree prune
rm -f /tmp/seed11/$id.my.patch
echo "stored $name"
