#!/bin/bash
# seed_column.sh <Cxx> [tier] — one column of the matrix: every live seeded change against ONE check
# (used to refresh a column after that check has changed). Rows go to seeded/MATRIX.<tier>.<Cxx>.txt
set -u
chk="$1"; tier="${2:-quick}"
ROOT="$(cd "$(dirname "$0")/.." && pwd)"
cd "$ROOT"
if [ -n "${VP_RUN_REPO:-}" ]; then
  export VERIF_REPO="$VP_RUN_REPO"
  sed -i "s#path = \"/repo\"#path = \"$VP_RUN_REPO\"#" mc/Cargo.toml
  sed -i "s#/verif/target#$ROOT/target#" mc/.cargo/config.toml
fi
out=$ROOT/seeded/MATRIX.$tier.$chk.txt
: > "$out"
for d in $ROOT/seeded/*/; do
  name=$(basename "$d")
  [ -f "$d/patch.diff" ] || continue
  grep -q '"superseded"' "$d/meta.json" 2>/dev/null && continue
  tools/seed_run.sh "$name" "$tier" "$chk" 2>&1 | grep " exit=" >> "$out"
done
echo "repo commit: $(git -C "${VERIF_REPO:-/repo}" log --oneline -1)" >> "$out.commit"
