#!/bin/bash
# seed_confirm.sh <Cxx> [name]
# Confirms a seeded change left uncommitted in the scratch worktree /tmp/seed/<Cxx>:
#   1. the repository's own suite passes with the change (seed_demo excluded),
#   2. the demonstration fails with the change,
#   3. the demonstration passes without the change,
# and stores it under /verif/seeded/<name>/ (patch.diff, seed_demo.rs, SEED.md, confirm.log).
set -u
id="$1"; name="${2:-$1}"
wt=${SEED_BASE:-/tmp/seed}/$id
out=/verif/seeded/$name
export CARGO_NET_OFFLINE=true CARGO_TARGET_DIR=$wt/target
cd "$wt" || exit 2
mkdir -p "$out"
git diff -- src Cargo.toml > "$out/patch.diff"
[ -s "$out/patch.diff" ] || { echo "no source change in $wt"; exit 2; }
cp tests/seed_demo.rs "$out/seed_demo.rs" || exit 2
[ -f SEED.md ] && cp SEED.md "$out/SEED.md"
log="$out/confirm.log"; : > "$log"
mv tests/seed_demo.rs $wt.seed_demo.rs
echo "== suite with change" >> "$log"
cargo test --workspace --no-fail-fast --offline 2>&1 | grep -E "^test result|FAILED|failed" >> "$log"
suite_ok=yes
grep -q "FAILED\|[1-9][0-9]* failed" "$log" && suite_ok=no
passed=$(grep "^test result: ok" "$log" | sed -E 's/.* ([0-9]+) passed.*/\1/' | paste -sd+ | bc)
[ "${passed:-0}" -ge 137 ] || suite_ok=no
mv $wt.seed_demo.rs tests/seed_demo.rs
echo "== demo with change" >> "$log"
cargo test --offline --test seed_demo 2>&1 | grep -E "^test |^test result|panicked" | head -20 >> "$log"
if cargo test --offline --test seed_demo >/dev/null 2>&1; then demo_with=pass; else demo_with=fail; fi
git apply -R "$out/patch.diff" || exit 2
echo "== demo without change" >> "$log"
if cargo test --offline --test seed_demo >/dev/null 2>&1; then demo_without=pass; else demo_without=fail; fi
git apply "$out/patch.diff" || exit 2
echo "suite_with_change=$suite_ok passed=$passed demo_with_change=$demo_with demo_without_change=$demo_without" | tee -a "$log"
[ "$suite_ok" = yes ] && [ "$demo_with" = fail ] && [ "$demo_without" = pass ]
