#!/bin/bash
# lists the seeded patches that no longer apply to /repo's working tree
for d in /verif/seeded/*/; do
  [ -f "$d/patch.diff" ] || continue
  git -C "${VERIF_REPO:-/repo}" apply --check "$d/patch.diff" 2>/dev/null || echo "DOES NOT APPLY: $(basename $d)"
done
