#!/bin/bash
# lists the seeded patches that no longer apply to /repo's working tree
for d in /verif/seeded/*/; do
  [ -f "$d/patch.diff" ] || continue
  grep -q '"superseded"' "$d/meta.json" 2>/dev/null && continue   # overtaken by a library fix, kept for the record
  git -C "${VERIF_REPO:-/repo}" apply --check "$d/patch.diff" 2>/dev/null || echo "DOES NOT APPLY: $(basename $d)"
done
