#!/bin/bash
# seed_store7.sh <Cxx> "<change, one line>" "<needs to manifest, one line>"
# round 10: confirm the change left in /tmp/seed10/<Cxx>, store it as seeded/<Cxx>f, write meta.json, drop the worktree
set -u
id="$1"; name="${1}g"
SEED_BASE=/tmp/seed10 /verif/tools/seed_confirm.sh "$id" "$name" || { echo "NOT CONFIRMED: $id"; exit 1; }
python3 - "$id" "$name" "$2" "$3" <<'PY'
import json,sys
id,name,change,needs=sys.argv[1:5]
conf=open(f'/verif/seeded/{name}/confirm.log').read().strip().splitlines()[-1]
m={"id":name,"breaks_property":id,"round":10,"change":change,"needs_to_manifest":needs,
"origin":f"fresh sub-agent given only the property text with its anchors, one-line descriptions of the earlier seeded changes to avoid, and a scratch worktree of /repo HEAD under /tmp/seed10/{id}; asked also to note violations observed in the unchanged code",
"confirmed_by":f"SEED_BASE=/tmp/seed10 tools/seed_confirm.sh {id} {name} in the scratch worktree: (1) cargo test --workspace --no-fail-fast --offline with the change and the demonstration moved aside, (2) cargo test --offline --test seed_demo with the change, (3) the same after git apply -R of the change",
"confirmation":conf,
"files":{"patch":"patch.diff","demonstration":"seed_demo.rs (an integration test: copy to tests/seed_demo.rs)","agent_notes":"SEED.md","confirm_log":"confirm.log"},
"how_to_run_checks":f"tools/seed_run.sh {name} quick {id}   # git -C /repo apply, ./check, undo",
"detected_by":"see DESIGN.md section 8 (round 10)"}
json.dump(m,open(f'/verif/seeded/{name}/meta.json','w'),indent=1)
PY
git -C /repo worktree remove --force /tmp/seed10/$id && git -C /repo worktree prune
rm -f /tmp/seed10/$id.my.patch /tmp/seed10/$id.seed_demo.rs
echo "stored $name"
