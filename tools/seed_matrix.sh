#!/bin/bash
# seed_matrix.sh [tier [shard nshards]] — runs every registered check against every seeded change (one at a time,
# applied to /repo's working tree and undone straight afterwards) and writes $ROOT/seeded/MATRIX.md.
# Takes several hours at the quick tier (2.5 - 4 minutes per change); /repo must be clean and must not be used
# meanwhile. With "shard nshards" only every nshards-th change (starting at shard) is run and the rows go to
# seeded/MATRIX.<tier>.<shard>.txt: run the shards from separate snapshots (vp run --with-repo), concatenate the
# row files into seeded/MATRIX.<tier>.txt and call "seed_matrix.sh <tier> merge" to write MATRIX.md.
set -u
tier="${1:-quick}"
shard="${2:-}"; nshards="${3:-1}"
ROOT="$(cd "$(dirname "$0")/.." && pwd)"
cd "$ROOT"
if [ -n "${VP_RUN_REPO:-}" ]; then
  # running from a snapshot (vp run --with-repo): point the harness at the repository snapshot
  export VERIF_REPO="$VP_RUN_REPO"
  sed -i "s#path = \"/repo\"#path = \"$VP_RUN_REPO\"#" mc/Cargo.toml
  sed -i "s#/verif/target#$ROOT/target#" mc/.cargo/config.toml
fi
checks=$(python3 -c "import json;print(' '.join(c['property_id'] for c in json.load(open('MANIFEST.json'))['checks']))" 2>/dev/null || echo C01 C02 C03 C04 C05 C06 C07 C08 C09 C10 C11 C12 C13 C14 C15 C16 C17 C18 C19 C20)
out=$ROOT/seeded/MATRIX.$tier.txt
if [ "$shard" != "merge" ]; then
  [ -n "$shard" ] && out=$ROOT/seeded/MATRIX.$tier.$shard.txt
  : > "$out"
  k=0
  for d in $ROOT/seeded/*/; do
    name=$(basename "$d")
    [ -f "$d/patch.diff" ] || continue
    grep -q '"superseded"' "$d/meta.json" 2>/dev/null && continue
    k=$((k+1))
    if [ -n "$shard" ] && [ $((k % nshards)) -ne "$shard" ]; then continue; fi
    tools/seed_run.sh "$name" "$tier" $checks 2>&1 | grep " exit=" >> "$out"
  done
  echo "repo commit: $(git -C "${VERIF_REPO:-/repo}" log --oneline -1)" >> "$out.commit"
  [ -n "$shard" ] && exit 0
fi
python3 - "$out" "$tier" "$ROOT" <<'EOF'
import sys,collections
rows=collections.OrderedDict(); checks=[]
for l in open(sys.argv[1]):
    p=l.split()
    if len(p)<5: continue
    seed,chk,tier,ex,vi=p[:5]
    rows.setdefault(seed,{})[chk]=(ex.split('=')[1],vi.split('=')[1])
    if chk not in checks: checks.append(chk)
with open(sys.argv[3]+'/seeded/MATRIX.md','w') as f:
    f.write(f"# Seeded changes x checks ({sys.argv[2]} tier)\n\nCell: number of VIOLATION lines (exit 1), '.' = exit 0, 'E' = machinery exit.\n\n")
    f.write("| seed | "+" | ".join(checks)+" |\n|---|"+"---|"*len(checks)+"\n")
    for s,r in rows.items():
        cells=[]
        for c in checks:
            ex,vi=r.get(c,('?','?'))
            cells.append('.' if ex=='0' else (vi if ex=='1' else 'E'+ex))
        f.write(f"| {s} | "+" | ".join(cells)+" |\n")
print(open(sys.argv[3]+'/seeded/MATRIX.md').read())
EOF
