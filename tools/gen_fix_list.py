#!/usr/bin/env python3
"""Regenerates DESIGN.md section 6.1b (one line per `fixed:` entry of known_findings.txt)."""
import re
root = '/verif'
lines = []
for l in open(f'{root}/known_findings.txt'):
    m = re.match(r'fixed: property=(C\d+) ([0-9a-f]{7,}) (.*)', l.strip())
    if m:
        text = m.group(3)
        if len(text) > 330:
            text = text[:327].rsplit(' ', 1)[0] + ' …'
        lines.append(f"* {m.group(1)} `{m.group(2)}` — {text}")
s = open(f'{root}/DESIGN.md').read()
a = s.index('### 6.1b')
b = s.index('### 6.2')
head = s[a:].split('\n', 1)[0]
s = s[:a] + head + '\n\n' + '\n'.join(lines) + '\n\n' + s[b:]
open(f'{root}/DESIGN.md', 'w').write(s)
print(len(lines), 'fixed entries')
