#!/bin/bash
# run the repository's own suite (hooks off); exit non-zero unless every test binary reports ok
cd /repo || exit 2
out=$(cargo test --workspace --no-fail-fast --offline 2>&1)
echo "$out" | grep -E "^test result" 
if echo "$out" | grep -qE "test result: FAILED|panicked at|^error"; then echo "REPO TESTS FAILED"; echo "$out" | grep -E "FAILED|panicked|^error" | head; exit 1; fi
n=$(echo "$out" | grep -E "^test result: ok" | awk '{s+=$4} END {print s}')
echo "passed: $n"
[ "$n" -ge 137 ] || { echo "fewer than 137 tests passed"; exit 1; }
