#!/usr/bin/env python3
"""Generate MANIFEST.json from the table below (single source of truth for the interface)."""
import json, subprocess

# id: (level, engine, technique, level text, level note, design ref)
CHECKS = {
 "C20": ("exploration", "space",
         "complete enumeration of option combinations x operations x input shapes and of batch sizes around the internal batch, the real kp binary vs. the in-process library result formatted by the harness",
         "All 240 combinations of --inv, -r, -z, -t, -d {absent, 0, 3}, -D {absent, 1..4} x 4 operations (adaptor + projection pipeline, addone, time-dependent helmert, an invalid one) x 8 input shapes (empty, comments/blank only, one line, mixed 1-4 columns with comments and sexagesimal values, homogeneous 3 and 4 columns, two files, lines with extra columns), alternately through file arguments and stdin: exactly one output line per coordinate line, in order, each number equal to the library's result for that tuple (defaults 0 / NaN or -z / -t) formatted with the requested decimals, cut to the requested dimension, --inv and --roundtrip as documented, invalid operation / unreadable file give a message and a non-zero (non-panic) status, empty input exits 0; the batch axis: 24999, 25000, 25001, 50000 lines (thorough also 1, 49999, 50001, 75000) spread over two files x 4 option sets x 2 operations, incl. a first coordinate that crosses kp's decimals heuristic exactly at the batch boundary.",
         "kp is built from /repo's working tree by ./check (cargo build --bin kp). Numbers are compared textually when -d is given, numerically (1e-5 + 1e-9 relative) otherwise; where a line gives a height/time and -z/-t is also given the affected elements are not judged.",
         "DESIGN.md §3 C20"),
 "C09": ("fault_enumeration", "faults",
         "exhaustive enumeration of adversarial definitions (grammar product over every built-in name and gamut key, single-character mutations at every offset) and of all 4-tuples over a special-value alphabet, executed in supervised worker processes",
         "Grammar: for every built-in operator and every key of its gamut (hook H1) the key is set to each of 36 adversarial spellings (empty, signed zero, overflowing exponents, NaN, inf, malformed sexagesimal, multi-byte, dangling $ and parentheses, commas, huge integers, unknown ellipsoids ...) with the other required keys valid, all key pairs over 6 values for gamuts up to 10 keys, each name in macro / pipeline / PROJ / modifier-only positions, plus ~170 degenerate texts, through both Minimal and Plain; byte level: every single deletion, duplication and replacement by 17 characters (separators, sigils, newline, subscript zero, degree sign, NUL) at every character offset of 64 definitions; coordinates: ~100 instantiable definitions x both directions x all 13^4 = 28561 tuples over NaN, infinities, signed zeros, subnormal, +-1e308, pi/2, -pi, +-1, 0.1; functions: the public angular, tokenizer, parse_proj, Ellipsoid::named and ellipsoid trait methods over string and value alphabets (incl. degenerate ellipsoids). Verdict per case from the worker: answer with count <= len, caught panic, death by signal, or watchdog expiry.",
         "Single mutations only at the byte level. Workers: 2 MiB stack, 4 GiB address space, 10 s watchdog (60 s solitary re-run for the first confirmed hangs).",
         "DESIGN.md §3 C09"),
 "C15": ("fault_enumeration", "faults",
         "exhaustive enumeration of corruption operators (every truncation length, every header bit flip, every header field x adversarial encodings, text token edits) over shipped and generated grid files, decoded and queried by the real readers in supervised worker processes",
         "Well-formed: the shipped .gsa twins agree with the library's decode of 5458.gsb / 5458_with_subgrid.gsb at every interior node; generated NTv2 trees decode to the nodes written in both byte orders and file orders (Gravsoft geometries/layouts: see C08). Damaged: for each of 9 shipped files (the 2.8 MB deformation grid on a reduced plan in the quick tier) and 7 generated ones (incl. two adversarial NTv2 trees: parent cycle through a repeated name, orphans/duplicates): every truncation length up to 4096 (thorough 65536) bytes and strided beyond, every single-bit flip in the first 1100 (NTv2) / 200 (Gravsoft) bytes (thorough 4096 / 600), every 16-byte header record x 14 adversarial encodings x both byte orders, deletion / duplication / 7 replacements of Gravsoft tokens; every decode that yields a grid is queried at 214 points (nodes, borders, margins, far outside, NaN, infinities, huge) x 3 margins. Verdict per case from the worker: Err / grid queried safely / panic / death by signal / no answer within the watchdog.",
         "Single corruption per file (plus two hand-built two-defect NTv2 trees). Workers run with a 4 GiB address-space limit on a 2 MiB stack; a watchdog expiry (20 s, then 60 s alone) is the only place wall-clock enters a verdict.",
         "DESIGN.md §3 C15"),
 "C08": ("exploration", "space",
         "complete enumeration of grid geometries x bands x per-cell query lattices, of all orders of overlapping grid lists, and of NTv2 tree shapes x file orders x byte orders, against a reference bilinear interpolator",
         "30 generated Gravsoft geometries (2..5 rows/cols, three spacings, two origins incl. one next to the antimeridian) x 1, 2, 3 bands x 5 text layouts, decoded by the library's reader: every cell probed at 25 in-cell positions, 1e-9 deg either side of inner edges, 0.25/0.49 cells (margin) and 0.51/2 cells (outside) off every border and corner, with and without the half-cell margin: value = harness bilinear interpolation / linear continuation of the f32 node values (1e-12 relative), within the corner range inside cells, nodes reproduced, containment as documented; all orders of all non-empty subsets of three overlapping grids x null grid on a 0.3 deg lattice: first containing grid, then first within the margin, then zero shift; six NTv2 tree shapes (single root, child, grandchild, two children, two roots, two roots + child) x all file orders x little/big endian: bilinear value of the deepest containing sub-grid; gridshift (datum: added, arcsec->rad, lon/lat order; geoid: subtracted), deformation raw (mm/yr->m/yr, ENU->XYZ, time span), deflection (slopes in arcsec) on generated grids served by a harness Context; outside-all-grids and @null/@optional behaviour.",
         "Trusts the harness encoders (Gravsoft text, NTv2 bytes) and interpolator. Points closer than 1e-9 deg to a grid border are not judged for containment.",
         "DESIGN.md §3 C08"),
 "C10": ("exploration", "space",
         "complete enumeration of an operator table x directions x tuple classes x all 16 NaN masks, with a per-operator dependency matrix as oracle",
         "28 operators (plane projections incl. both laea aspects, merc/webmerc, cart both ways, static/rotated/dynamic helmert, molodensky, latitude, permtide, addone, unitconvert, gridshift on datum/geoid/NTv2 grids and grid lists, deformation, deflection, curvature, gravity) x supported directions: every inside tuple alone and in a set must be counted, finite in the worked-on elements and bit-identical elsewhere; each of the 15 non-empty NaN masks must give NaN in every output that depends on a NaN input (dependency matrix per operator and direction) and leave independent untouched elements bit-identical; tuples beyond the declared limits (TM strip, laea disc, grid coverage) must be NaN in the worked-on elements and uncounted, never unchanged or partly transformed; set count = sum of single counts <= len; one-way inverses report 0 and leave data untouched; null-grid pass-through; six pipelines with failing steps (count = min, failed tuples NaN, stack underflow).",
         "The dependency matrices and the lists of out-of-domain tuples are the harness's transcription of each operator's documentation. The count of tuples whose only NaN sits in an untouched element is not judged.",
         "DESIGN.md §3 C10"),
 "C14": ("exploration", "space",
         "complete enumeration of each route pair's common-domain lattice x shared parameters x ellipsoids; two executions of the real code (or real code vs closed form / quadrature) compared",
         "tmerc vs btmerc (4 shared parameter sets) and utm vs butm (2 zones) within 3 degrees of the central meridian, forward and inverse, 1 mm; cart operator forward bit-identical to Ellipsoid::cartesian and its inverse within 1 mm of Ellipsoid::geographic for h in [-10 km, 100 km]; latitude (6 kinds, both directions), curvature (5 kinds), gravity (5 formulae) and geodesic (both directions) operators against the ellipsoid methods to rounding; 10 mappings shared by axisswap / unitconvert / adapt to 1 ulp in both directions; every non-grid catalogue definition (54) through Minimal and Plain bit-identical in both directions; series-based conformal and authalic latitudes vs closed forms (1e-11 rad, |lat| <= 89.9) and meridian arcs vs Gauss-Legendre quadrature (1e-6 m). Quick: 4 ellipsoids, thorough: every instantiable built-in.",
         "Differential oracle for the operator/method pairs. Lattice coverage only.",
         "DESIGN.md §3 C14"),
 "C07": ("exploration", "space",
         "complete enumeration of Helmert parameter sets x spellings x epochs x directions on a fixed point set, against the EPSG small-angle formulae and metamorphic relations",
         "All combinations of 3 translations x 4 rotations (0, sub-arcsecond, 10 arcsec class, 30 degrees exact) x 3 scales x 8 rate subsets x 2 conventions x exact/small-angle x t_obs absent/given (quick: rate subsets reduced off the main diagonal), each in scalar, list and mixed spelling, applied forward and inverse to 27 cartesian points within 1e7 m that carry four different epochs in ONE set: forward equals T(t)+(1+s(t))R(t)x from a 3x3 reference evaluated per tuple epoch (1e-8 m; second order in the angles in exact mode); distances scale by 1+s; PV(r) == CF(-r); exact PV and CF matrices are transposes; spellings bit-identical; epoch untouched; t_obs == every tuple at that epoch; inverse undoes forward (1e-9 m exact/unrotated, second order otherwise); molodensky (full 0.5 m, abridged 5 m) against cart|helmert|cart inv for 5 shifts up to 200 m on a lat/lon/height lattice.",
         "Exact mode is not compared with a specific composition order (the property states none). Parameter values outside the enumerated alphabet are not covered.",
         "DESIGN.md §3 C07"),
 "C06": ("exploration", "space",
         "complete enumeration of ellipsoid table x latitude/longitude/height lattices x geodesic start/azimuth/distance lattices x auxiliary latitude kinds, against identities, closed forms and Gauss-Legendre quadrature",
         "Every entry of the built-in table (via hook H2) must instantiate and carry the published a and 1/f (harness transcription of PROJ's list; names without reference are UNCOVERED); for every ellipsoid (quick 8 + 4 synthetic with f up to 1/150, thorough all) the nine derived shape parameters satisfy their identities; geographic->cartesian equals the defining formula, height-zero points satisfy the ellipsoid equation, the cart operator round-trips to 1 um and the closed form to 1 cm for h in [-10 km, 100 km] (1 mm to 1e7 m for ordinary flattenings) on a lat x lon x 7-height lattice incl. the poles; all six auxiliary latitudes are odd, strictly increasing along the lattice, fix 0 and the poles, round-trip to 1e-12 rad and equal their closed forms / quadrature to 1e-11 rad; meridian distance and latitude are mutual inverses; geodesics from 6 (thorough 98) starts x 32 azimuths (every 15 deg plus 0.1 deg off the cardinals) x 6 distances to 19000 km: direct/inverse consistency, end point symmetry, meridian arcs against quadrature, equatorial arcs a*dlon, great circles on the sphere.",
         "Figures the statement does not give (geodesic consistency, arc comparisons: 1 mm; mutual inverse of the meridian formulae: 1 mm) are the harness's reading. Pairs within 1 degree of antipodal are excluded as documented. Lattice coverage only.",
         "DESIGN.md §3 C06"),
 "C05": ("exploration", "space",
         "complete enumeration of projection aspect x ellipsoid x fixed lattice; scale factors from 4th-order central differences of the real forward operator vs. the harness's own M, N and meridian-arc quadrature",
         "For all 48 projection aspects x ellipsoids (quick: GRS80, intl, sphere, f=1/150; thorough: every instantiable built-in plus f=1/150, 1/200, 1/1000) x the lattice (|lat| <= 89.9, tmerc within 60 deg, btmerc 3 deg; quick 7.5x15 deg, thorough 1x3 deg plus all special points): conformal projections must have equal scale along meridian and parallel, orthogonal graticule images and positive orientation; laea area scale 1; webmerc equals a*lambda, a*asinh(tan phi); k_0 along the central meridian of tmerc/utm/btmerc with northing = k_0*(arc(phi)-arc(lat_0))+y_0 against Gauss-Legendre quadrature; k_0 on the equator or unity at +-lat_ts for merc; k_0 on each standard parallel of lcc; k_0 at the centre of somerc/omerc; projection centre mapped to (x_0, y_0).",
         "Numerical differentiation error < 1e-9 relative (step reduced near the poles). Conformality tolerance 1e-7 (1e-5 for the millimetre-class btmerc/omerc). Lattice coverage only.",
         "DESIGN.md §3 C05"),
 "C13": ("exploration", "space",
         "complete enumeration of projection aspect x ellipsoid x shared-parameter alphabet x fixed lattice; each relation is a differential check between two parameterisations of the real code",
         "For every projection aspect of the table (merc, tmerc, btmerc, lcc, laea, omerc, somerc; 38 aspects) x ellipsoids (quick 2, thorough all instantiable built-ins): false origin (3 values), lon_0/lonc (3 values, lattice re-centred), k_0 (2 values, with offsets), doubling the semi-major axis; utm == tmerc and butm == btmerc for all 60 zones x both hemispheres (forward and inverse); merc == webmerc on two spheres; lat_ts == the corresponding k_0 (4 latitudes); lcc 1SP == 2SP with equal parallels (3 cones); the five noop aliases on all 169 value pairs of the special-value alphabet in four wrappings.",
         "Differential oracle: a defect that is identical in both parameterisations is invisible here (C01/C05/C14 cover those). Coverage is the stated lattice.",
         "DESIGN.md §3 C13"),
 "C01": ("exploration", "space",
         "complete enumeration of operator aspect x ellipsoid x a fixed deterministic lattice x both round-trip orders; wrapper forms compared bit for bit with the plain operator",
         "48 projection aspects (merc x5, webmerc, tmerc x3, utm/butm zones x hemispheres, btmerc, lcc 1SP/2SP north/south, laea oblique/equatorial/polar N/S, omerc A/B/Laborde, somerc) x 6 built-in ellipsoids (thorough: all instantiable table entries) x a lattice of every special latitude/longitude offset visible in the code plus a uniform step (quick 7.5x15 deg, thorough 0.5x2 deg) clipped to the documented domain, heights and epochs varying; cart at 7 heights, 8 helmert forms, molodensky x5, latitude x6, permtide x9, exact conversions, dm/dms, geodesic reversible, grid shifts and deformation inside coverage of the shipped grids, four whole pipelines; both fwd->inv (ground distance on the ellipsoid) and inv->fwd (metres); counts must equal the set size, the epoch must come back bit-identical; eight wrapper forms (inv prefix/infix/suffix, one-step pipeline, macro body, inverted macro) must be bit-identical to the plain operator (directions exchanged where applicable). Built-in names absent from the catalogue are printed as UNCOVERED.",
         "Tolerances come from the statement (10 um rigorous/exact, 1 mm btmerc/omerc/molodensky/cart above 100 km, second order in the angles for small-angle helmert, bit-exact permutations and dyadic translations). Coverage is the stated lattice only; nothing is claimed between lattice points. The harness's ground-distance metric uses its own M and N.",
         "DESIGN.md §3 C01"),
 "C02": ("model_checking", "explore",
         "explicit-state exploration of apply histories: every tuple sequence up to a length bound x every chunking through one handle, vs. each tuple alone on a fresh context",
         "For each of 60 catalogue definitions (every built-in operator in at least one parameterisation incl. static/dynamic/t_obs helmert, grid operators on the shipped grids, stack pipelines, macros) and each supported direction: all ordered sequences of length 0..4 over a 6-tuple alphabet (two epochs, NaN epoch, out-of-domain, NaN member, duplicate; thorough: length 0..5 over 8 tuples) x every contiguous chunking, plus one 100000-tuple set, all applied through one handle; every per-tuple result must be bit-identical to that tuple transformed alone on a fresh context, counts additive for elementary operators, and the used handle must still behave like a fresh twin. The same tuples go through Vec/array/slice of Coor4D/3D/2D/32, the (T,t) and (T,h,t) adapters and a user container and must agree in the stored dimensions.",
         "Bit-identity is judged after canonicalising NaN. Sets longer than the bound are represented by one cyclic 100000-tuple set. Coor32 inputs are made f32-exact first.",
         "DESIGN.md §3 C02"),
 "C18": ("model_checking", "explore+sched",
         "explicit-state exploration of API histories against a registry model, plus exhaustive thread interleavings (shuttle DFS) at grid-cache lock and API-call boundaries",
         "All histories of depth 1..3 over 32 actions (register_op, register_resource, op on two contexts; names with/without colon, colliding with built-ins, file-based macros) and depth 4 over 26 (thorough: 4 full, 5 reduced), for Minimal and Plain: a registry model predicts what every op call binds (documented resolution order, errors for unknown names); in the final state every live operator must have the fingerprint, step list and parameters it had at creation, handles are pairwise distinct and rejected by other contexts. All Plain grid-cache histories of depth <= 5 (thorough 7) over instantiate (two contexts) / clear_grids / rewrite / delete the grid file, with every live operator re-checked after every action. 1728 generated register-file layouts (items, order, LF/CRLF/CR, terminator, prose, prefix names, separate resource file). Three (thorough four) 3-thread harnesses explored over all interleavings with shuttle's DFS scheduler (hook H4 yields before each GRIDS lock).",
         "Trusts the registry model (user operators are 'add k' so the chosen binding is observable) and shuttle's serialised execution: switches happen only at API-call boundaries and immediately before each grid-cache lock acquisition; weak-memory effects are not modelled. If the exploration process is killed by a signal the supervisor reports a violation.",
         "DESIGN.md §3 C18"),
 "C17": ("model_checking", "explore",
         "exhaustive enumeration of the PROJ program tree (steps x modifiers x pipeline options x layouts), Plain::op(PROJ) vs. an independent translator's Geodesy counterpart",
         "Every PROJ pipeline of 1..2 steps over 11 shared operator forms (incl. k -> k_0 and a/rf -> ellps) x {none, inv, omit_fwd, omit_inv} per step, and 3 steps over a reduced set (thorough: 6 forms at length 3, 2 at length 4), crossed with pipeline-level inv, three global sets (none, ellps, keys clashing with step-local ones), three '+' styles, three layouts (one line, line per step, CRLF with leading and trailing comments), explicit/implicit proj=pipeline and modifier before/after proj=: the operator Plain instantiates must have the fingerprint of the harness-rendered Geodesy counterpart (directions exchanged for pipeline-level inv); parse_proj must be idempotent; init clauses and nested pipelines refused; Geodesy texts (also ones containing the substring proj) must keep their meaning.",
         "Trusts the harness translator (globals first, locals after, order kept) and that shared operators mean the same in both syntaxes. One-step proj=pipeline definitions carrying omit_* are not judged (counterpart debatable).",
         "DESIGN.md §3 C17"),
 "C16": ("model_checking", "space",
         "deviation-bounded exhaustive enumeration of renderings (all with <= 2, thorough <= 3, deviating sites) and complete per-type spelling alphabets, real code vs. canonical rendering / reference parsers",
         "For 11 structured definitions (single steps, pipelines, directional steps, macro invocations with arguments, indexed keys, stack steps, adaptor macros) every rendering with at most 2 (thorough: 3) deviating sites out of whitespace kind / line end / continuation colon / adversarial comments / blank lines / empty steps / modifier position / subscript spelling / </> sugar, plus uniform renderings, must give the same fingerprint, the same typed parameters and the same token-sorted step list as the canonical rendering, and normalize must be idempotent on each; a harness-registered operator with a required and an optional key per OpParameter variant is instantiated with every spelling of per-type alphabets (488 real spellings incl. sexagesimal x hemisphere x sign, integers at the type limits, series, text lists, multi-byte) and compared with reference parsers, incl. defaults, required keys, last-wins and unknown keys.",
         "Trusts the renderer (only documented-insignificant layout is varied; continuation colons at column 0) and the reference parsers (Rust integer grammar; sign*(d+m/60+s/3600)). Spellings whose meaning is not specified (minus sign plus hemisphere, negative minutes, overflowing exponents) are only required not to panic.",
         "DESIGN.md §3 C16"),
 "C19": ("exploration", "space",
         "complete enumeration of container type x element index x special-value alphabet, and of fixed angle lattices, against element-wise definitions",
         "Every tuple type (Coor2D/3D/4D/32, (f64,f64)) x every element index 0..dim+2 x 13 special values (NaN, infinities, signed zeros, subnormal, huge) for every accessor, bulk accessor, update length and arithmetic operator (all value pairs); every set container (arrays, slices, vectors of all four tuple types, the height/epoch adapters with 12 fixed-value combinations, a user container using only the trait defaults) x all 13^4 written tuples; angle encodings on every 0.5 arcsec in [-2,2] deg, every arc-minute in [-720,720] deg (thorough: 0.05 arcsec / every arc-second), carry neighbourhoods and the full (d,m,s) integer lattice incl. d = 0.",
         "Exhaustive over the stated alphabets and lattices only; says nothing about values between lattice points. Loss 'beyond rounding' is judged as 4 ulp of the encoded value in its finest unit.",
         "DESIGN.md §3 C19"),
 "C11": ("model_checking", "space",
         "complete enumeration of the finite parameter spaces named in the property, real operators vs. table-driven reference",
         "All 1920x1920 adapt from/to pairs (forward vs. reference mapping, inverse vs. exact reverse), all 4096 four-letter words x 12 suffixes for acceptance/rejection, all 1920 'to=X' vs 'inv from=X' equivalences, the 8 built-in adaptor macros; every index list of length <= 5 over -5..5 for axisswap (442 valid ones compared with the documented signed permutation, all others must be rejected); every ordered pair of the 24 xy and 21 z units for unitconvert against PROJ's published factors; unit table hygiene via hook H3. Both tiers run the complete space.",
         "Trusts the harness's reference tables (descriptor semantics from the adapt documentation, unit factors from PROJ units.c). One generic probe tuple per instance (the mappings are linear, so one generic tuple determines them). The angular suffix is accepted under either of two readings (horizontal elements / first two positions).",
         "DESIGN.md §3 C11"),
 "C04": ("model_checking", "explore",
         "exhaustive enumeration of macro binding/nesting/resource-graph spaces against a reference expander; graphs and depth sweeps in watchdog-supervised worker processes",
         "Complete products of (body shape x binding form x parameter name x caller-argument subset x inv placement x stand-alone/step), of nesting chains of depth 1..4 (per-level name and forwarding form, pipelines, inverted levels), all 8000 assignments of bodies to three mutually referring macros x 3 entry points, rings of length 1..50 and legitimate chains of depth 0..50: each invocation must be accepted exactly when its reference expansion is valid and then behave bit-identically to the composition of the expansion's stand-alone elementary steps; every instantiation must return within the watchdog limit on a 2 MiB stack.",
         "Trusts the reference expander (environment-passing substitution transcribed from the property statement and Rumination 009). Parameter names outside {a,m,x,z}, nesting deeper than 4 with forwarding (deeper only for the four sweep shapes) and graphs of more than 3 macros are not covered. Exponential but finite expansion of doubling DAGs is not judged.",
         "DESIGN.md §3 C04"),
 "C03": ("model_checking", "explore",
         "explicit-state exploration of the program tree: every pipeline up to a length bound x every modifier placement, real code vs. reference interpreter",
         "Every pipeline of length 1..2 over 15 base steps (elementary, one-way, and six kinds of user macros incl. directional, nested, inverted-last-step and stack bodies) x 5 inv spellings x 6 omit spellings, and length 3 over a reduced alphabet (thorough: length 3 full, 4..5 reduced), is instantiated and applied in both directions; results and counts are compared bit for bit with a reference interpreter that holds the program as a tree and applies stand-alone instantiations of the elementary steps one after another.",
         "Trusts the reference interpreter's transcription of the composition rules in the property statement and the elementary operators themselves (only composition, inversion, omission and counting are judged). Pipelines longer than the bound are not covered.",
         "DESIGN.md §3 C03"),
 "C12": ("model_checking", "explore",
         "explicit-state exploration: every program up to a length bound + BFS over concrete machine states, real code vs. reference stack machine",
         "Every stack program of length 1..2 over the full instruction alphabet and 1..3 over a reduced one (thorough: 1..3 full, 4 reduced) is instantiated and applied through the public API in both directions on two operand sets, twice, and compared bit for bit with an abstract stack machine transcribed from the documentation; a BFS over concrete (stack, operands) states steps the real stack_fwd/stack_inv next to the model so the hidden stack is compared after every transition; ill-formed sub-commands must be rejected.",
         "Trusts the harness's reference machine (self-tested against the documentation's tables on every run) and hook H5 exposing the real stack transition function. Programs longer than the bound and operand sets larger than 3 tuples are not covered.",
         "DESIGN.md §3 C12"),
}

NOT_YET = {}

def main():
    props = [json.loads(l) for l in open("/verif/properties.jsonl")]
    ids = [p["id"] for p in props]
    hooks = subprocess.run(["git", "-C", "/repo", "log", "--format=%H %s"], capture_output=True, text=True).stdout.splitlines()
    hook_commits = [l.split()[0] for l in hooks if "verif-hooks" in l]
    checks = []
    for pid in ids:
        if pid not in CHECKS:
            continue
        level, engine, technique, text, note, ref = CHECKS[pid]
        checks.append({
            "property_id": pid,
            "quick_cmd": f"./check {pid} quick",
            "thorough_cmd": f"./check {pid} thorough",
            "evidence_file": f"/verif/evidence/{pid}.json",
            "replay_cmd_template": "./check replay {path}",
            "engine": engine,
            "level_claimed": {"category": level, "text": text, "design_ref": ref},
            "level_note": note,
            "technique": technique,
        })
    na = [{"property_id": pid, "reason": NOT_YET.get(pid, "check not built yet in this round; see DESIGN.md §3 for the planned bounded exhaustive check")}
          for pid in ids if pid not in CHECKS]
    m = {
        "version": 1,
        "setup_cmd": "cd /verif/mc && CARGO_NET_OFFLINE=true cargo build --release --offline",
        "hooks": {
            "guard": "cargo feature verif-hooks",
            "enable": "the harness crate /verif/mc depends on geodesy = { path = \"/repo\", features = [\"with_plain\", \"verif-hooks\"] }; every ./check invocation rebuilds it from /repo's working tree",
            "baseline_off_cmd": "cd /repo && cargo test --workspace --no-fail-fast --offline",
            "source_commits": hook_commits,
            "add_only": True,
        },
        "engines": [
            {"name": "space", "path": "/verif/mc/src/engine.rs", "kind_free_text": "exhaustive mixed-radix product enumeration on 16 threads (par_range/decode)", "serves_properties": ["C01", "C05", "C06", "C07", "C08", "C10", "C11", "C13", "C14", "C16", "C19", "C20"]},
            {"name": "explore", "path": "/verif/mc/src/props", "kind_free_text": "explicit-state / program-tree exploration of the real API against reference models written in Rust", "serves_properties": ["C02", "C03", "C04", "C12", "C17", "C18"]},
            {"name": "sched", "path": "/verif/mc/src/props/c18.rs", "kind_free_text": "shuttle DfsScheduler over real threads sharing Plain contexts and the process-wide grid cache; yield points from hook H4", "serves_properties": ["C18"]},
            {"name": "faults", "path": "/verif/mc/src/props/c15.rs", "kind_free_text": "exhaustive corruption operators over byte buffers (truncate, bit flip, field overwrite, token edit) applied inside worker processes", "serves_properties": ["C09", "C15"]},
            {"name": "workers", "path": "/verif/mc/src/engine.rs", "kind_free_text": "worker subprocesses (2 MiB stack, 4 GiB address space, watchdog) for hang / overflow / abort detection", "serves_properties": ["C04", "C09", "C15"]},
        ],
        "checks": checks,
        "not_applicable": na,
        "notes": "All checks: ./check <id> quick|thorough. Known findings: /verif/known_findings.txt. Evidence: /verif/evidence/<id>.json, rewritten by every run.",
    }
    json.dump(m, open("/verif/MANIFEST.json", "w"), indent=1)
    print("checks:", len(checks), "not_applicable:", len(na))

main()
